"""FILE-ACCESS MONITOR: sys.addaudithook trace of every open(), wrappers for os.path.isfile, hostile file system.

The audit hook cannot be removed once installed, so it is installed once per process and gated by `active`.
Events are filtered to paths inside the universe directory of the current case (interpreter imports etc. are outside)."""
import os
import sys

_state = {'installed': False, 'active': False, 'universe': None, 'events': [], 'probes': [], 'hostile': False,
          'roots': (), 'real_isfile': os.path.isfile}


def _norm(p):
    """Where a path handed to the operating system leads.  A path without `..` components is taken lexically (directory links the user
    placed inside a root count as part of it); a path that still contains `..` is resolved the way the OS resolves it, physically,
    because `link/..` is the parent of the link's TARGET, not of the link."""
    if isinstance(p, bytes):
        p = os.fsdecode(p)
    if '..' in p.split(os.sep):
        return os.path.realpath(os.path.join(os.getcwd(), p))
    return os.path.normpath(os.path.abspath(p))


def _hook(event, args):
    if event != 'open' or not _state['active']:
        return
    path = args[0]
    if isinstance(path, int) or path is None:
        return
    try:
        p = _norm(path)
    except Exception:
        return
    u = _state['universe']
    if u and (p == u or p.startswith(u + os.sep)):
        _state['events'].append((p, args[1] if len(args) > 1 else None))


def install():
    if not _state['installed']:
        sys.addaudithook(_hook)
        _state['installed'] = True

        def isfile(path):
            real = _state['real_isfile'](path)
            if _state['active']:
                try:
                    p = _norm(path)
                except Exception:
                    return real
                u = _state['universe']
                if u and (p == u or p.startswith(u + os.sep)):
                    _state['probes'].append(p)
                    if _state['hostile'] and not real and not os.path.isdir(p) and not inside(p, _state['roots']):
                        # hostile file system: every non-directory path outside the permitted roots "exists"
                        return True
            return real
        os.path.isfile = isfile


def inside(p, roots):
    for r in roots:
        r = _norm(r)
        if p == r or p.startswith(r + os.sep):
            return True
    return False


class Watch:
    """with Watch(universe, roots, hostile) as w: ...  -> w.events, w.probes"""

    def __init__(self, universe, roots, hostile=False):
        self.universe = _norm(universe)
        self.roots = [_norm(r) for r in roots]
        self.hostile = hostile

    def __enter__(self):
        install()
        _state.update(universe=self.universe, events=[], probes=[], hostile=self.hostile, roots=self.roots, active=True)
        return self

    def __exit__(self, *a):
        _state['active'] = False
        self.events = list(_state['events'])
        self.probes = list(_state['probes'])
        return False

    def outside(self):
        return [(p, m) for (p, m) in self.events if not inside(p, self.roots)]
