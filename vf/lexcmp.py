"""Comparison of picotool's token list with the reference lexer's (shared by C06, C07 and friends)."""
from . import reflex
from . import ambient


def kind_of(tok):
    """Kind name of a picotool token, from its public class name."""
    return {'TokSpace': 'space', 'TokNewline': 'newline', 'TokComment': 'comment', 'TokString': 'string',
            'TokNumber': 'number', 'TokName': 'name', 'TokLabel': 'label', 'TokKeyword': 'keyword',
            'TokSymbol': 'symbol'}.get(type(tok).__name__, type(tok).__name__)


def merge_labels(rt):
    """picotool reports `::name::` as one label token; fold the reference's three tokens accordingly."""
    out = []
    i = 0
    while i < len(rt):
        t = rt[i]
        if (t.kind == 'symbol' and t.raw == b'::' and i + 2 < len(rt) and rt[i + 1].kind == 'name' and
                rt[i + 2].kind == 'symbol' and rt[i + 2].raw == b'::'):
            out.append(reflex.Tok('label', t.raw + rt[i + 1].raw + rt[i + 2].raw, t.off, t.line, t.col))
            i += 3
        else:
            out.append(t)
            i += 1
    return out


def picotool_tokens(src, chunked=False):
    from pico8.lua import lexer
    lx = lexer.Lexer(version=ambient.VERSION[0])
    if chunked:
        lines = src.split(b'\n')
        chunks = [l + b'\n' for l in lines[:-1]] + ([lines[-1]] if lines[-1] else [])
    else:
        chunks = [src]
    lx.process_lines(chunks)
    return lx.tokens


def picotool_tokens_in_calls(src, cuts):
    """The same text handed to ONE Lexer object in several process_lines() calls, cut at the given offsets (line ends at which no
    token is open)."""
    from pico8.lua import lexer
    lx = lexer.Lexer(version=ambient.VERSION[0])
    prev = 0
    for c in list(cuts) + [len(src)]:
        seg = src[prev:c]
        prev = c
        if seg:
            lx.process_lines([seg])
    return lx.tokens


def first_divergence(rt, pt, values=True):
    """-> None, or (index, description, reference token or None).  rt: reference tokens (labels merged)."""
    n = min(len(rt), len(pt))
    for i in range(n):
        a, b = rt[i], pt[i]
        kb = kind_of(b)
        if a.kind != kb:
            return i, 'kind %s vs picotool %s (%r vs %r)' % (a.kind, kb, a.raw[:30], bytes(b.code)[:30]), a
        if (a.line, a.col) != (b._lineno, b._charno):
            return i, 'position of %r: line %d col %d vs picotool line %s col %s' % (
                a.raw[:30], a.line, a.col, b._lineno, b._charno), a
        if a.kind != 'string' and a.raw != bytes(b.code):
            return i, 'extent %r vs picotool %r' % (a.raw[:40], bytes(b.code)[:40]), a
    if len(rt) != len(pt):
        extra = rt[n] if len(rt) > n else None
        return n, 'token count %d vs picotool %d (next: %r / %r)' % (
            len(rt), len(pt), extra.raw[:30] if extra else None, bytes(pt[n].code)[:30] if len(pt) > n else None), extra
    if values:
        for i in range(n):
            a, b = rt[i], pt[i]
            if a.kind == 'string':
                try:
                    v = bytes(b.value)
                except Exception as e:
                    return i, 'string value of %r raised %r' % (a.raw[:40], e), a
                if v != a.value:
                    return i, 'string %r decodes to %r, picotool value %r' % (a.raw[:40], a.value[:40], v[:40]), a
            elif a.kind == 'number':
                try:
                    v = b.value
                except Exception as e:
                    return i, 'number value of %r raised %r' % (a.raw, e), a
                want = float(a.value)
                if not (abs(v - want) <= 1e-12 * max(1.0, abs(want))):
                    return i, 'number %r is %r, picotool value %r' % (a.raw, want, v), a
    return None


def tokens_equal(pa, pb):
    """Two picotool token lists identical in class, code and position."""
    if len(pa) != len(pb):
        return False
    for a, b in zip(pa, pb):
        if type(a) is not type(b) or a.code != b.code or a._lineno != b._lineno or a._charno != b._charno:
            return False
    return True
