"""Driver for the runtime-monitoring checks.

  ./check <ID> quick|thorough        run the check for one property
  ./check <ID> --replay <file>       re-run one recorded case

A check module (vf/checks/cNN.py) provides

  LEVEL        evidence level (exploration | fault_enumeration)
  RULE         how cases are generated and what makes one non-trivial
  ASSUMPTIONS  list of strings
  plan(tier, seed)      -> list of JSON-able shard specs
  run_shard(spec, ctx)  -> None; reports through ctx (a ShardContext)
  gates(merged, tier)   -> list of missed coverage gates (strings); empty = ok
  replay(case, ctx)     -> None; re-runs one recorded case through the same monitor
  KNOWN_KEYS   (optional) set of mechanism keys this check may attach to a violation

Every shard runs in a fresh subprocess (PYTHONHASHSEED derived from the seed) that
imports pico8 from $VF_REPO (default /repo) so that the working tree is what is exercised.

Exit codes: 0 held on everything explored, 1 violation (VIOLATION line), 2 inconclusive.
"""
import concurrent.futures
import hashlib
import importlib
import json
import os
import random
import subprocess
import sys
import tempfile
import time
import traceback

HERE = os.path.dirname(os.path.dirname(os.path.abspath(__file__)))
REPO = os.environ.get('VF_REPO', '/repo')
OUT = os.path.join(HERE, 'out')
MAX_PROCS = int(os.environ.get('VF_PROCS', '16'))
MAX_VIOL_PER_SHARD = 40


def derive(*parts):
    """Deterministic 63-bit integer from the given parts."""
    h = hashlib.sha256('|'.join(str(p) for p in parts).encode()).digest()
    return int.from_bytes(h[:8], 'big') >> 1


def short_hash(x):
    if isinstance(x, str):
        x = x.encode('utf-8', 'surrogateescape')
    elif not isinstance(x, (bytes, bytearray)):
        x = json.dumps(x, sort_keys=True, default=repr).encode()
    return hashlib.blake2b(bytes(x), digest_size=6).hexdigest()


def jsonable(x, depth=0):
    """Make a value JSON-serialisable; bytes become latin-1 strings tagged b:..."""
    if isinstance(x, (bytes, bytearray)):
        return 'b:' + bytes(x).decode('latin-1')
    if isinstance(x, dict):
        return {str(k): jsonable(v, depth + 1) for k, v in x.items()}
    if isinstance(x, (list, tuple, set, frozenset)):
        return [jsonable(v, depth + 1) for v in x]
    if isinstance(x, (str, int, float, bool)) or x is None:
        return x
    return repr(x)


def unjson(x):
    """Inverse of jsonable for the b: tagging."""
    if isinstance(x, str) and x.startswith('b:'):
        return x[2:].encode('latin-1')
    if isinstance(x, dict):
        return {k: unjson(v) for k, v in x.items()}
    if isinstance(x, list):
        return [unjson(v) for v in x]
    return x


class ShardContext:
    """What a shard reports. Everything here is measured, nothing is constant."""

    def __init__(self, spec):
        self.spec = spec
        self.evaluations = 0
        self.nontrivial = set()
        self.features = {}
        self.monitors = {}
        self.violations = []
        self.vcounts = {}
        self.samples = []
        self.inconclusive = []
        self.extra = {}
        self.rng = random.Random(spec.get('seed', 0))

    # --- counting -------------------------------------------------------
    def case(self, ident, nontrivial=True):
        """Record one generated case. ident: bytes/str/obj that identifies it."""
        self.evaluations += 1
        if nontrivial:
            self.nontrivial.add(short_hash(ident))

    def feature(self, name, n=1):
        self.features[name] = self.features.get(name, 0) + n

    def monitor(self, name, n=1):
        self.monitors[name] = self.monitors.get(name, 0) + n

    def sample(self, x, limit=3):
        if len(self.samples) < limit:
            self.samples.append(jsonable(x))

    # --- verdicts -------------------------------------------------------
    def violation(self, what, case, key=None):
        """A refuting observation. key = mechanism name if the check's classifier
        attributes it to a (possibly) listed finding, else None."""
        k = key or '__unlisted__'
        self.vcounts[k] = self.vcounts.get(k, 0) + 1
        per_key = sum(1 for v in self.violations if (v['key'] or '__unlisted__') == k)
        if per_key < 3 or (key is None and len(self.violations) < MAX_VIOL_PER_SHARD):
            self.violations.append({'key': key, 'what': what[:2000],
                                    'case': jsonable(case)})

    def inconclusive_because(self, why):
        if why not in self.inconclusive:
            self.inconclusive.append(why)

    def result(self):
        return {
            'evaluations': self.evaluations,
            'nontrivial': sorted(self.nontrivial),
            'features': self.features,
            'monitors': self.monitors,
            'violations': self.violations,
            'vcounts': self.vcounts,
            'samples': self.samples,
            'inconclusive': self.inconclusive,
            'extra': jsonable(self.extra),
        }


def setup_repo_path():
    """Put the repository under test first on sys.path (and .deps after it)."""
    repo = os.environ.get('VF_REPO', '/repo')
    if repo in sys.path:
        sys.path.remove(repo)
    sys.path.insert(0, repo)
    deps = os.path.join(HERE, '.deps')
    if os.path.isdir(deps) and deps not in sys.path:
        sys.path.append(deps)
    import pico8  # noqa
    real = os.path.realpath(os.path.dirname(os.path.dirname(pico8.__file__)))
    if real != os.path.realpath(repo):
        raise RuntimeError('pico8 imported from %s, wanted %s' % (real, repo))


def load_check(pid):
    return importlib.import_module('vf.checks.' + pid.lower())


# ---------------------------------------------------------------------------
# shard subprocess entry


def shard_main(pid, specfile, outfile):
    setup_repo_path()
    mod = load_check(pid)
    with open(specfile) as fh:
        spec = json.load(fh)
    ctx = ShardContext(spec)
    from . import ambient
    level = ambient.install(spec)
    if level is not None:
        ctx.feature('ambient_verbosity_' + level)
    if ambient.TMP_OTHER_FS[0]:
        ctx.feature('ambient_tmpdir_on_another_filesystem')
    if spec.get('pyopt'):
        if sys.flags.optimize:
            ctx.feature('ambient_python_O_shards')
        else:
            ctx.inconclusive_because('pyopt shard is not running with assertions disabled')
    if spec.get('clocale'):
        import locale
        if locale.getpreferredencoding(False).lower().replace('-', '') in ('utf8',):
            ctx.inconclusive_because('clocale shard is running with a UTF-8 locale encoding')
        else:
            ctx.feature('ambient_non_utf8_locale_shards')
    try:
        if spec.get('__replay__'):
            mod.replay(unjson(spec['case']), ctx)
        else:
            mod.run_shard(spec, ctx)
    except Exception:
        ctx.inconclusive_because('harness exception in shard %r: %s' % (
            spec.get('name', '?'), traceback.format_exc()[-1500:]))
    with open(outfile, 'w') as fh:
        json.dump(ctx.result(), fh)


# ---------------------------------------------------------------------------
# driver


def _run_one(pid, spec, timeout, workdir, idx):
    specfile = os.path.join(workdir, 'spec%d.json' % idx)
    outfile = os.path.join(workdir, 'out%d.json' % idx)
    with open(specfile, 'w') as fh:
        json.dump(spec, fh)
    env = dict(os.environ)
    env['PYTHONHASHSEED'] = str(spec.get('hashseed', derive('hs', spec.get('seed', 0)) % 4294967295))
    env['PYTHONDONTWRITEBYTECODE'] = '1'
    env['PYTHONPATH'] = HERE + (':' + env['PYTHONPATH'] if env.get('PYTHONPATH') else '')
    env['VF_REPO'] = REPO
    env.pop('PYTHONOPTIMIZE', None)
    if spec.get('pyopt'):
        # the properties do not depend on interpreter flags: some shards run with assertions compiled out
        env['PYTHONOPTIMIZE'] = '1'
    if spec.get('clocale'):
        # nor on the locale: some shards run where the locale's encoding is ASCII (POSIX locale, UTF-8 mode off)
        env.update({'LC_ALL': 'C', 'LANG': 'C', 'PYTHONUTF8': '0', 'PYTHONCOERCECLOCALE': '0'})
    cmd = [sys.executable, '-c',
           'import sys; from vf.core import shard_main; shard_main(*sys.argv[1:])',
           pid, specfile, outfile]
    t0 = time.time()
    try:
        p = subprocess.run(cmd, env=env, timeout=timeout, stdout=subprocess.PIPE,
                           stderr=subprocess.PIPE, cwd=workdir)
    except subprocess.TimeoutExpired:
        return {'inconclusive': ['watchdog: shard %r exceeded %ds' % (spec.get('name'), timeout)]}
    if not os.path.exists(outfile):
        return {'inconclusive': ['shard %r died rc=%s stderr=%s' % (
            spec.get('name'), p.returncode, p.stderr.decode('utf-8', 'replace')[-1500:])]}
    with open(outfile) as fh:
        res = json.load(fh)
    res['wall_s'] = time.time() - t0
    return res


def merge(results):
    m = {'evaluations': 0, 'nontrivial': set(), 'features': {}, 'monitors': {},
         'violations': [], 'vcounts': {}, 'samples': [], 'inconclusive': [], 'extra': []}
    for r in results:
        m['evaluations'] += r.get('evaluations', 0)
        m['nontrivial'].update(r.get('nontrivial', []))
        for k in ('features', 'monitors', 'vcounts'):
            for a, b in r.get(k, {}).items():
                m[k][a] = m[k].get(a, 0) + b
        m['violations'].extend(r.get('violations', []))
        for s in r.get('samples', []):
            if len(m['samples']) < 6:
                m['samples'].append(s)
        for i in r.get('inconclusive', []):
            if i not in m['inconclusive']:
                m['inconclusive'].append(i)
        if r.get('extra'):
            m['extra'].append(r['extra'])
    return m


def load_known(pid):
    path = os.path.join(HERE, 'known_findings.json')
    if not os.path.exists(path):
        return {}
    with open(path) as fh:
        data = json.load(fh)
    return {f['key']: f for f in data.get('findings', [])
            if f.get('property') == pid and f.get('status') == 'open'}


def write_evidence(pid, tier, seed, mod, merged, wall, nviol, verdict, missed):
    cov = {
        'evaluations': merged['evaluations'],
        'distinct_nontrivial': len(merged['nontrivial']),
        'rule': mod.RULE,
        'samples': merged['samples'] or ['(no sample recorded)'],
        'exhaustive': bool(getattr(mod, 'EXHAUSTIVE', {}).get(tier, False)),
        'features_observed': dict(sorted(merged['features'].items())),
        'monitor_events': dict(sorted(merged['monitors'].items())),
        'known_finding_cases': {k: v for k, v in merged['vcounts'].items() if k != '__unlisted__'},
        'verdict': verdict,
        'gates_missed': missed,
        'inconclusive_reasons': merged['inconclusive'],
    }
    if merged['extra']:
        cov['extra'] = merged['extra'][:4]
    ev = {
        'property_id': pid, 'tier': tier, 'seed': seed, 'level': mod.LEVEL,
        'coverage': cov, 'assumptions': list(mod.ASSUMPTIONS),
        'wall_s': round(wall, 2), 'violations': nviol,
    }
    os.makedirs(os.path.join(HERE, 'evidence'), exist_ok=True)
    path = os.path.join(HERE, 'evidence', pid + '.json')
    tmp = path + '.tmp'
    with open(tmp, 'w') as fh:
        json.dump(ev, fh, indent=1, sort_keys=True)
        fh.write('\n')
    os.replace(tmp, path)
    try:
        import jsonschema
        with open('/root/.vp/EVIDENCE.schema.json') as fh:
            jsonschema.validate(ev, json.load(fh))
    except ImportError:
        pass
    except FileNotFoundError:
        pass
    return path


def run_check(pid, tier, seed):
    t0 = time.time()
    setup_repo_path()
    mod = load_check(pid)
    specs = mod.plan(tier, seed)
    kinds = getattr(mod, 'PYOPT_KINDS', None)
    if kinds is not None:
        # one more shard, a copy of an ordinary one, under `python -O` (assertions compiled out): no property depends on that
        for s in specs:
            if s.get('kind') in kinds and not s.get('pyopt'):
                specs.append(dict(s, pyopt=True, ambient_copy=True))
                break
    kinds = getattr(mod, 'CLOCALE_KINDS', None)
    if kinds is not None:
        # and one under the POSIX locale without UTF-8 mode (the locale's text encoding is ASCII there)
        for s in specs:
            if s.get('kind') in kinds and not s.get('pyopt') and not s.get('clocale'):
                specs.append(dict(s, clocale=True, ambient_copy=True))
                break
    for i, s in enumerate(specs):
        s.setdefault('name', 'shard%d' % i)
        s.setdefault('seed', derive(seed, pid, tier, i))
        s.setdefault('tier', tier)
    timeout = getattr(mod, 'TIMEOUT', {}).get(tier, 900 if tier == 'quick' else 7200)
    os.makedirs(OUT, exist_ok=True)
    with tempfile.TemporaryDirectory(prefix='vf-%s-' % pid, dir=OUT) as workdir:
        with concurrent.futures.ThreadPoolExecutor(max_workers=MAX_PROCS) as ex:
            futs = [ex.submit(_run_one, pid, s, timeout, workdir, i)
                    for i, s in enumerate(specs)]
            results = [f.result() for f in futs]
    merged = merge(results)
    known = load_known(pid)
    if os.environ.get('VF_DUMP'):
        with open(os.path.join(OUT, 'dump-%s.json' % pid), 'w') as fh:
            json.dump(merged['violations'], fh)

    unlisted = [v for v in merged['violations'] if v['key'] is None or v['key'] not in known]
    n_unlisted = sum(c for k, c in merged['vcounts'].items() if k not in known)
    missed = [] if merged['inconclusive'] else mod.gates(merged, tier)
    if not merged['inconclusive'] and len(specs) >= 3:
        for lvl in ('normal', 'debug', 'quiet'):
            if merged['features'].get('ambient_verbosity_' + lvl, 0) < 1:
                missed.append('no shard ran at %s verbosity' % lvl)
        if any(s.get('pyopt') for s in specs) and merged['features'].get('ambient_python_O_shards', 0) < 1:
            missed.append('no shard ran under python -O')
        if any(s.get('clocale') for s in specs) and merged['features'].get('ambient_non_utf8_locale_shards', 0) < 1:
            missed.append('no shard ran under a non-UTF-8 locale')
    if n_unlisted:
        verdict = 'violated'
    elif merged['inconclusive'] or missed:
        verdict = 'inconclusive'
    else:
        verdict = 'held'
    wall = time.time() - t0
    write_evidence(pid, tier, seed, mod, merged, wall, n_unlisted, verdict, missed)

    print('%s %s seed=%d: %d evaluations, %d distinct non-trivial, %.1fs, monitors=%s' % (
        pid, tier, seed, merged['evaluations'], len(merged['nontrivial']), wall,
        json.dumps(merged['monitors'], sort_keys=True)[:600]))
    for k, c in sorted(merged['vcounts'].items()):
        if k in known:
            print('KNOWN-FINDING: property=%s key=%s %s [%d cases this run]' % (
                pid, k, known[k]['what'], c))
    if n_unlisted:
        os.makedirs(os.path.join(OUT, 'replay'), exist_ok=True)
        first = None
        for i, v in enumerate(unlisted[:10]):
            path = os.path.join(OUT, 'replay', '%s-%d.json' % (pid, i))
            with open(path, 'w') as fh:
                json.dump({'property': pid, 'tier': tier, 'seed': seed, 'key': v['key'],
                           'what': v['what'], 'case': v['case']}, fh, indent=1)
            if first is None:
                first = path
                print('first violation: key=%s %s' % (v['key'], v['what'][:1500]))
        print('VIOLATION property=%s replay=%s' % (pid, first))
        return 1
    if verdict == 'inconclusive':
        print('INCONCLUSIVE property=%s reason=%s' % (
            pid, '; '.join(merged['inconclusive'] + missed)[:3000]))
        return 2
    print('HELD property=%s on everything explored' % pid)
    return 0


def run_replay(pid, path):
    with open(path) as fh:
        rec = json.load(fh)
    spec = {'__replay__': True, 'case': rec['case'], 'name': 'replay', 'seed': 0}
    os.makedirs(OUT, exist_ok=True)
    with tempfile.TemporaryDirectory(prefix='vf-replay-', dir=OUT) as workdir:
        res = _run_one(pid, spec, 1800, workdir, 0)
    for i in res.get('inconclusive', []):
        print('INCONCLUSIVE', i)
    known = load_known(pid)
    rc = 0
    for v in res.get('violations', []):
        if v['key'] in known:
            print('KNOWN-FINDING: property=%s key=%s %s' % (pid, v['key'], known[v['key']]['what']))
        else:
            print('reproduced: key=%s %s' % (v['key'], v['what']))
            print('VIOLATION property=%s replay=%s' % (pid, path))
            rc = 1
    if rc == 0 and not res.get('inconclusive'):
        print('replay: no violation observed')
    return rc if not res.get('inconclusive') else (rc or 2)


def main(argv):
    if len(argv) < 2:
        print(__doc__)
        return 2
    pid = argv[0].upper()
    if argv[1] == '--replay':
        return run_replay(pid, argv[2])
    tier = argv[1]
    if tier not in ('quick', 'thorough'):
        print('tier must be quick or thorough')
        return 2
    seed = int(os.environ.get('VERIF_SEED', '0') or 0)
    return run_check(pid, tier, seed)


if __name__ == '__main__':
    sys.exit(main(sys.argv[1:]))
