"""REFERENCE LEXER — Lua 5.2 §3.1 plus the PICO-8 extensions named in the properties.

INDEPENDENCE RULE: never imports pico8.  Maximal munch over bytes.  Each token:
    kind   'keyword' 'name' 'number' 'string' 'symbol' 'comment' 'newline' 'space'
    raw    the exact source bytes
    off    byte offset,  line/col  0-based position of the first byte
    value  strings -> decoded bytes; numbers -> exact Fraction; others -> raw
    long   (strings/comments) True for the long-bracket forms

A source the grammar rejects raises RefLexError (such sources are outside every check's domain).
"""
import re
from fractions import Fraction

KEYWORDS = frozenset(b'and break do else elseif end false for function goto if in local nil not or repeat '
                     b'return then true until while'.split())

SYMBOLS = [  # Lua 5.2
    b'+', b'-', b'*', b'/', b'%', b'^', b'#', b'==', b'~=', b'<=', b'>=', b'<', b'>', b'=', b'(', b')', b'{', b'}',
    b'[', b']', b'::', b';', b':', b',', b'.', b'..', b'...',
    # PICO-8
    b'!=', b'+=', b'-=', b'*=', b'/=', b'%=', b'..=', b'&', b'|', b'^^', b'~', b'<<', b'>>', b'>>>', b'<<>', b'>><',
    b'\\', b'@', b'$']
assert len(SYMBOLS) == 46 and len(set(SYMBOLS)) == 46
_SYMS_BY_LEN = sorted(SYMBOLS, key=lambda s: -len(s))
_SYM_RE = re.compile(b'|'.join(re.escape(s) for s in _SYMS_BY_LEN))

_NAME_RE = re.compile(br'[A-Za-z_\x80-\xff][A-Za-z0-9_\x80-\xff]*')
_SPACE_RE = re.compile(br'[ \t]+')
_NL_RE = re.compile(br'\r\n|\n|\r')
_LONG_OPEN_RE = re.compile(br'\[(=*)\[')
# llex.c read_numeral: greedily digits / hex digits / '.', with an exponent marker followed by an optional sign
_NUM_DEC_RUN = re.compile(br'(?:[eE][+-]?|[0-9a-fA-F.])*')
_NUM_HEX_RUN = re.compile(br'(?:[0-9a-fA-F.])*')
_DEC_OK = re.compile(br'(?:[0-9]+\.?[0-9]*|\.[0-9]+)(?:[eE][+-]?[0-9]+)?\Z')
# hex/binary numerals with a trailing dot (0x1f.) are not claimed either way: rejected, hence out of every domain
_HEX_OK = re.compile(br'0[xX](?:[0-9a-fA-F]+(?:\.[0-9a-fA-F]+)?|\.[0-9a-fA-F]+)\Z')
_BIN_OK = re.compile(br'0[bB](?:[01]+(?:\.[01]+)?|\.[01]+)\Z')

SIMPLE_ESCAPES = {
    ord('a'): 7, ord('b'): 8, ord('f'): 12, ord('n'): 10, ord('r'): 13, ord('t'): 9, ord('v'): 11,
    ord('\\'): 92, ord('"'): 34, ord("'"): 39,
    # PICO-8 P8SCII control-code escapes
    ord('*'): 1, ord('#'): 2, ord('-'): 3, ord('|'): 4, ord('+'): 5, ord('^'): 6,
}


class RefLexError(Exception):
    def __init__(self, msg, off):
        super().__init__('%s at byte %d' % (msg, off))
        self.msg = msg
        self.off = off


class Tok:
    __slots__ = ('kind', 'raw', 'off', 'line', 'col', 'value', 'long')

    def __init__(self, kind, raw, off, line, col, value=None, long=False):
        self.kind = kind
        self.raw = raw
        self.off = off
        self.line = line
        self.col = col
        self.value = raw if value is None else value
        self.long = long

    def __repr__(self):
        return 'Tok(%s,%r@%d:%d)' % (self.kind, self.raw, self.line, self.col)

    @property
    def sig(self):
        return self.kind not in ('space', 'newline', 'comment')


def number_value(lexeme):
    """Exact value of a well-formed numeral as a Fraction."""
    s = lexeme.decode('ascii')
    low = s.lower()
    if low.startswith('0x') or low.startswith('0b'):
        base = 16 if low[1] == 'x' else 2
        body = s[2:]
        ip, _, fp = body.partition('.')
        v = Fraction(int(ip, base) if ip else 0)
        if fp:
            v += Fraction(int(fp, base), base ** len(fp))
        return v
    mant, _, exp = low.partition('e')
    ip, _, fp = mant.partition('.')
    v = Fraction(int(ip) if ip else 0)
    if fp:
        v += Fraction(int(fp), 10 ** len(fp))
    if exp:
        v *= Fraction(10) ** int(exp)
    return v


def _read_quoted(src, pos):
    """src[pos] is the opening quote.  -> (end position, decoded bytes)."""
    q = src[pos]
    i = pos + 1
    n = len(src)
    out = bytearray()
    while True:
        if i >= n:
            raise RefLexError('unfinished string', pos)
        c = src[i]
        if c == q:
            return i + 1, bytes(out)
        if c == 10 or c == 13:
            raise RefLexError('unfinished string (raw line break)', i)
        if c != 92:
            out.append(c)
            i += 1
            continue
        # escape
        if i + 1 >= n:
            raise RefLexError('unfinished string', pos)
        e = src[i + 1]
        if e in SIMPLE_ESCAPES:
            out.append(SIMPLE_ESCAPES[e])
            i += 2
        elif e == 10 or e == 13:
            # backslash-newline: a line break in the string; \r\n and \n\r count as one
            out.append(10)
            i += 2
            if i < n and src[i] in (10, 13) and src[i] != e:
                i += 1
        elif 48 <= e <= 57:
            j = i + 1
            v = 0
            k = 0
            while k < 3 and j < n and 48 <= src[j] <= 57:
                v = v * 10 + (src[j] - 48)
                j += 1
                k += 1
            if v > 255:
                raise RefLexError('decimal escape too large', i)
            out.append(v)
            i = j
        elif e == ord('x'):
            h = src[i + 2:i + 4]
            if len(h) != 2 or not re.match(br'[0-9a-fA-F]{2}\Z', h):
                raise RefLexError('hexadecimal digit expected', i)
            out.append(int(h, 16))
            i += 4
        elif e == ord('z'):
            i += 2
            while i < n and src[i] in b' \t\r\n\f\v':
                i += 1
        else:
            raise RefLexError('invalid escape sequence \\%c' % e, i)


def _read_long(src, pos, m, what):
    """m matched the opening long bracket at pos.  -> (end, body bytes)."""
    close = b']' + m.group(1) + b']'
    j = src.find(close, m.end())
    if j < 0:
        raise RefLexError('unfinished long %s' % what, pos)
    return j + len(close), src[m.end():j]


def _long_string_value(body):
    # the first line break directly after the opening bracket is skipped
    if body[:2] in (b'\r\n', b'\n\r'):
        return body[2:]
    if body[:1] in (b'\n', b'\r'):
        return body[1:]
    return body


def lex(src):
    """-> list of Tok covering src completely and contiguously."""
    src = bytes(src)
    toks = []
    pos = 0
    n = len(src)
    line = 0
    col = 0

    def emit(kind, end, value=None, long=False):
        nonlocal pos, line, col
        raw = src[pos:end]
        toks.append(Tok(kind, raw, pos, line, col, value, long))
        nl = raw.count(b'\n')
        if nl:
            line += nl
            col = len(raw) - raw.rfind(b'\n') - 1
        else:
            col += len(raw)
        pos = end

    while pos < n:
        c = src[pos]
        m = _SPACE_RE.match(src, pos)
        if m:
            emit('space', m.end())
            continue
        m = _NL_RE.match(src, pos)
        if m:
            emit('newline', m.end())
            continue
        if src.startswith(b'--', pos):
            m = _LONG_OPEN_RE.match(src, pos + 2)
            if m:
                end, body = _read_long(src, pos, m, 'comment')
                emit('comment', end, long=True)
            else:
                m2 = _NL_RE.search(src, pos)
                emit('comment', m2.start() if m2 else n)
            continue
        if src.startswith(b'//', pos):
            m2 = _NL_RE.search(src, pos)
            emit('comment', m2.start() if m2 else n)
            continue
        if c == 34 or c == 39:
            end, val = _read_quoted(src, pos)
            emit('string', end, val)
            continue
        if c == 91:  # [
            m = _LONG_OPEN_RE.match(src, pos)
            if m:
                end, body = _read_long(src, pos, m, 'string')
                emit('string', end, _long_string_value(body), long=True)
                continue
        if 48 <= c <= 57 or (c == 46 and pos + 1 < n and 48 <= src[pos + 1] <= 57):
            if c == 48 and pos + 1 < n and src[pos + 1] in b'xX':
                end = _NUM_HEX_RUN.match(src, pos + 2).end()
                ok = _HEX_OK
            else:
                end = _NUM_DEC_RUN.match(src, pos).end()
                ok = None
            lexeme = src[pos:end]
            if ok is None:
                ok = _BIN_OK if lexeme[:2] in (b'0b', b'0B') else _DEC_OK
            if not ok.match(lexeme):
                raise RefLexError('malformed number %r' % lexeme, pos)
            emit('number', end, number_value(lexeme))
            continue
        m = _NAME_RE.match(src, pos)
        if m:
            emit('keyword' if m.group(0) in KEYWORDS else 'name', m.end())
            continue
        if c == 63:  # ? print shorthand is a name
            emit('name', pos + 1)
            continue
        m = _SYM_RE.match(src, pos)
        if m:
            emit('symbol', m.end())
            continue
        raise RefLexError('unexpected byte %r' % src[pos:pos + 1], pos)
    return toks


def sig(toks):
    """Significant tokens only."""
    return [t for t in toks if t.kind not in ('space', 'newline', 'comment')]


def try_lex(src):
    try:
        return lex(src), None
    except RefLexError as e:
        return None, e


def glue_ok(a, b):
    """True iff the raw token texts a and b may be written with nothing between them,
    i.e. lexing a+b yields exactly the two tokens."""
    t, err = try_lex(a + b)
    return err is None and len(t) == 2 and t[0].raw == a and t[1].raw == b
