"""Reference codecs, written from the PICO-8 format descriptions.

INDEPENDENCE RULE: this module never imports pico8.  It is the oracle side of the
monitors: a writer and a reader in picotool that share a mistake still disagree with it.

Contents: P8SCII table, memory map, .p8 text reader/writer, PNG decoder/encoder
(zlib + struct, CRC checked), steganographic pack/unpack, `:c:` validating decoder,
greedy and randomised `:c:` encoders.
"""
import struct
import zlib

# ---------------------------------------------------------------------------
# P8SCII <-> Unicode (PICO-8 character set, as stored in .p8 files)

_P8_LOW = [chr(i) for i in range(16)] + list('▮■□⁙⁘‖◀▶「」¥•、。゛゜')
_P8_ASCII = [chr(i) for i in range(32, 127)] + ['○']
_P8_SYMS = ['█', '▒', '🐱', '⬇️', '░', '✽', '●', '♥', '☉', '웃', '⌂', '⬅️', '😐', '♪', '🅾️', '◆',
            '…', '➡️', '★', '⧗', '⬆️', 'ˇ', '∧', '❎', '▤', '▥']
_P8_HIRA = list('あいうえおかきくけこさしすせそたちつてとなにぬねのはひふへほまみむめもやゆよらりるれろわをんっゃゅょ')
_P8_KATA = list('アイウエオカキクケコサシスセソタチツテトナニヌネノハヒフヘホマミムメモヤユヨラリルレロワヲンッャュョ')
P8SCII = _P8_LOW + _P8_ASCII + _P8_SYMS + _P8_HIRA + _P8_KATA + ['◜', '◝']
assert len(P8SCII) == 256, len(P8SCII)
assert len(set(P8SCII)) == 256
_U2P = {s: i for i, s in enumerate(P8SCII)}
_MAXW = max(len(s) for s in P8SCII)


def p8_to_unicode(bs):
    return ''.join(P8SCII[b] for b in bs)


def unicode_to_p8(s):
    out = bytearray()
    i = 0
    while i < len(s):
        for w in range(_MAXW, 0, -1):
            if s[i:i + w] in _U2P:
                out.append(_U2P[s[i:i + w]])
                i += w
                break
        else:
            raise ValueError('not a P8SCII spelling at %d: %r' % (i, s[i:i + 2]))
    return bytes(out)


# ---------------------------------------------------------------------------
# Memory map

GFX = (0x0000, 0x2000)
MAP = (0x2000, 0x3000)
GFF = (0x3000, 0x3100)
MUSIC = (0x3100, 0x3200)
SFX = (0x3200, 0x4300)
CODE = (0x4300, 0x8000)
VERSION_ADDR = 0x8000
REGIONS = (('gfx', GFX), ('map', MAP), ('gff', GFF), ('music', MUSIC), ('sfx', SFX))
REGION_SIZES = {n: b - a for n, (a, b) in REGIONS}
DATA_END = 0x4300
CODE_SIZE = 0x8000 - 0x4300  # 0x3d00


def split_memory(mem):
    """mem: >= 0x4300 bytes -> dict of region bytes."""
    return {n: bytes(mem[a:b]) for n, (a, b) in REGIONS}


def join_memory(regions):
    return b''.join(bytes(regions[n]) for n, _ in REGIONS)


# ---------------------------------------------------------------------------
# .p8 text format

P8_HEADER = b'pico-8 cartridge // http://www.pico-8.com\n'


def _hex(bs):
    return ''.join('%02x' % b for b in bs)


def gfx_rows(data):
    """8192 bytes -> 128 rows of 128 pixel digits in screen order (low nibble = left pixel)."""
    rows = []
    for r in range(len(data) // 64):
        row = data[r * 64:(r + 1) * 64]
        rows.append(''.join('%x%x' % (b & 15, b >> 4) for b in row))
    return rows


def gfx_from_rows(rows):
    out = bytearray()
    for row in rows:
        assert len(row) == 128, len(row)
        for i in range(0, 128, 2):
            out.append(int(row[i], 16) | (int(row[i + 1], 16) << 4))
    return bytes(out)


def sfx_rows(data):
    """4352 bytes (64 x (32 notes x 2 bytes + 4 header bytes)) -> 64 text rows."""
    rows = []
    for i in range(64):
        blk = data[i * 68:(i + 1) * 68]
        s = _hex(blk[64:68])
        for n in range(32):
            w = blk[n * 2] | (blk[n * 2 + 1] << 8)
            pitch = w & 0x3f
            wave = (w >> 6) & 7
            vol = (w >> 9) & 7
            eff = (w >> 12) & 7
            custom = (w >> 15) & 1
            s += '%02x%x%x%x' % (pitch, wave | (custom << 3), vol, eff)
        rows.append(s)
    return rows


def sfx_from_rows(rows):
    out = bytearray()
    for row in rows:
        assert len(row) == 168, len(row)
        hdr = bytes.fromhex(row[:8])
        notes = bytearray()
        for n in range(32):
            f = row[8 + n * 5:13 + n * 5]
            pitch = int(f[0:2], 16)
            wv = int(f[2], 16)
            vol = int(f[3], 16)
            eff = int(f[4], 16)
            w = (pitch & 0x3f) | ((wv & 7) << 6) | ((vol & 7) << 9) | ((eff & 7) << 12) | ((wv >> 3) << 15)
            notes += bytes((w & 255, w >> 8))
        out += notes + hdr
    return bytes(out)


def music_rows(data):
    rows = []
    for i in range(len(data) // 4):
        c = data[i * 4:i * 4 + 4]
        flags = (c[0] >> 7) | ((c[1] >> 7) << 1) | ((c[2] >> 7) << 2)
        rows.append('%02x %02x%02x%02x%02x' % (flags, c[0] & 127, c[1] & 127, c[2] & 127, c[3] & 127))
    return rows


def music_from_rows(rows):
    out = bytearray()
    for row in rows:
        fl, ch = row.split(' ')
        f = int(fl, 16)
        c = bytes.fromhex(ch)
        out += bytes((c[0] | ((f & 1) << 7), c[1] | (((f >> 1) & 1) << 7),
                      c[2] | (((f >> 2) & 1) << 7), c[3]))
    return bytes(out)


def music_mask(data):
    """Clear the bit the .p8 text format has no place for (bit 7 of every 4th byte)."""
    d = bytearray(data)
    for i in range(3, len(d), 4):
        d[i] &= 0x7f
    return bytes(d)


TRIM_DEFAULT_ROW = {'gfx': b'0' * 128 + b'\n', 'gff': b'00' * 128 + b'\n', 'map': b'00' * 128 + b'\n', 'music': b'00 41424344\n',
                    'sfx': b'00100000' + b'00000' * 32 + b'\n'}


def write_p8(regions, code, version=33, label=None, final_newline=True, order=None, omit=(), trim=(), meta=None, meta_after=None):
    """Reference .p8 writer.  regions: dict name -> bytes; code: P8SCII bytes.
    order: section order (default lua gfx label gff map sfx music); omit: sections left out entirely; trim: sections written the way
    current PICO-8 writes them, without their trailing rows that hold only default contents (all-zero gfx/gff/map rows, silent music
    patterns `00 41424344`, unused sfx `00100000` + 32 empty notes)."""
    parts = {}
    lua = [b'__lua__\n', p8_to_unicode(code).encode('utf-8')]
    if final_newline and not code.endswith(b'\n'):
        lua.append(b'\n')
    parts['lua'] = lua
    parts['gfx'] = [b'__gfx__\n'] + [(r + '\n').encode() for r in gfx_rows(regions['gfx'])]
    if label is not None:
        parts['label'] = [b'__label__\n'] + [(r + '\n').encode() for r in gfx_rows(label)]
    g = regions['gff']
    parts['gff'] = [b'\n__gff__\n'] + [(_hex(g[i:i + 128]) + '\n').encode() for i in range(0, 256, 128)]
    m = regions['map']
    parts['map'] = [b'__map__\n'] + [(_hex(m[i:i + 128]) + '\n').encode() for i in range(0, 4096, 128)]
    parts['sfx'] = [b'__sfx__\n'] + [(r + '\n').encode() for r in sfx_rows(regions['sfx'])]
    parts['music'] = [b'__music__\n'] + [(r + '\n').encode() for r in music_rows(regions['music'])]
    out = [P8_HEADER, b'version %d\n' % version]
    for name in trim:
        rows = parts[name]
        # (the first sfx pattern is never dropped: what an absent pattern 0 means is not something the format description settles)
        while len(rows) > (2 if name == 'sfx' else 1) and rows[-1] == TRIM_DEFAULT_ROW[name]:
            rows.pop()
    # meta: (name, text lines) of a `__meta:name__` section as current PICO-8 writes it for the title shown in splore (after the music
    # section; meta_after places it after another section).  It is not cart memory: a reader has nothing to take from it.
    def meta_block():
        return [b'__meta:' + meta[0] + b'__\n'] + [l + b'\n' for l in meta[1]]
    prev = None
    for name in (order or ('lua', 'gfx', 'label', 'gff', 'map', 'sfx', 'music')):
        if name in parts and name not in omit:
            if name == 'gff' and prev == 'lua':
                # (the blank line PICO-8 leaves before __gff__ would become a line of the code)
                out.append(b'__gff__\n')
                out.extend(parts[name][1:])
            else:
                out.extend(parts[name])
            prev = name
            if meta is not None and meta_after == name:
                out.extend(meta_block())
                prev = 'meta'
    if meta is not None and meta_after is None:
        out.extend(meta_block())
        prev = 'meta'
    if prev != 'lua':
        out.append(b'\n')      # (PICO-8 ends the file with an empty line; after the Lua section it would be a line of the code)
    return b''.join(out)


def write_p8_variant(rng, regions, code, version=33, label='random'):
    """The same cart as write_p8 would write, in one of the file shapes the format allows: sections in another order, sections without
    their trailing default rows, with / without / with an all-black label.  The memory the file encodes is the same in every shape."""
    order = None
    if rng.random() < 0.5:
        order = ['lua', 'gfx', 'label', 'gff', 'map', 'sfx', 'music']
        rng.shuffle(order)
    trim = tuple(n for n in ('gfx', 'gff', 'map', 'sfx', 'music') if rng.random() < 0.5)
    if label == 'random':
        r = rng.random()
        label = None if r < 0.5 else bytes(8192) if r < 0.65 else bytes(rng.getrandbits(8) for _ in range(128)) * 64
    meta = None
    meta_after = None
    if rng.random() < 0.3:
        meta = (b'title', [rng.choice((b'my game', b'jelpi demo', b'untitled', b'a b c', b'00 41424344', b'x=1')), b'by someone'][:rng.randint(1, 2)])
        if rng.random() < 0.3:
            meta_after = rng.choice(('gfx', 'gff', 'map', 'sfx', 'lua'))
    return write_p8(regions, code, version=version, label=label, order=order, trim=trim, meta=meta, meta_after=meta_after)


class FormatError(Exception):
    pass


def read_p8(data):
    """Reference .p8 reader -> dict(version, code (P8SCII bytes), label or None, regions...).

    Sections absent from the file are returned as None."""
    lines = data.split(b'\n')
    if lines[0] + b'\n' != P8_HEADER:
        raise FormatError('bad header line 1')
    if not lines[1].startswith(b'version '):
        raise FormatError('bad header line 2')
    version = int(lines[1][8:])
    # split() leaves a final '' if data ends with \n
    body = lines[2:]
    if body and body[-1] == b'':
        body = body[:-1]
    sections = {}
    cur = None
    for ln in body:
        if len(ln) >= 5 and ln.startswith(b'__') and ln.endswith(b'__') and ln[2:-2].replace(b'meta:', b'', 1).replace(b':', b'').isalnum():
            cur = ln[2:-2].decode()
            sections[cur] = []
        elif cur is not None:
            sections[cur].append(ln)
    res = {'version': version, 'label': None, 'sections': list(sections)}
    code_lines = sections.get('lua')
    if code_lines is None:
        res['code'] = None
    else:
        res['code'] = b''.join(unicode_to_p8(l.decode('utf-8')) + b'\n' for l in code_lines)

    def rows(name, width):
        return [l.decode('ascii') for l in sections.get(name, []) if len(l) == width]

    res['gfx'] = gfx_from_rows(rows('gfx', 128)) if 'gfx' in sections else None
    if 'label' in sections:
        res['label'] = gfx_from_rows(rows('label', 128))
    res['gff'] = bytes.fromhex(''.join(rows('gff', 256))) if 'gff' in sections else None
    res['map'] = bytes.fromhex(''.join(rows('map', 256))) if 'map' in sections else None
    res['sfx'] = sfx_from_rows(rows('sfx', 168)) if 'sfx' in sections else None
    res['music'] = music_from_rows(rows('music', 11)) if 'music' in sections else None
    return res


# ---------------------------------------------------------------------------
# PNG (8-bit RGBA, non-interlaced)

PNG_SIG = b'\x89PNG\r\n\x1a\n'


def _paeth(a, b, c):
    p = a + b - c
    pa, pb, pc = abs(p - a), abs(p - b), abs(p - c)
    if pa <= pb and pa <= pc:
        return a
    if pb <= pc:
        return b
    return c


def png_trailing_bytes(data):
    """Number of bytes that follow the IEND chunk of a well-formed PNG stream (a PNG file ends with that chunk)."""
    pos = 8
    while pos + 12 <= len(data):
        (ln,) = struct.unpack('>I', data[pos:pos + 4])
        typ = data[pos + 4:pos + 8]
        pos += 12 + ln
        if typ == b'IEND':
            return len(data) - pos
    raise FormatError('no IEND chunk')


def png_decode(data):
    """-> (width, height, rows) with rows = list of bytearray(width*4) RGBA.
    Raises FormatError on any structural problem (signature, CRC, zlib, sizes)."""
    if data[:8] != PNG_SIG:
        raise FormatError('png signature')
    pos = 8
    ihdr = None
    idat = []
    seen_end = False
    while pos < len(data):
        if pos + 8 > len(data):
            raise FormatError('truncated chunk header')
        (ln,) = struct.unpack('>I', data[pos:pos + 4])
        typ = data[pos + 4:pos + 8]
        body = data[pos + 8:pos + 8 + ln]
        if len(body) != ln or pos + 12 + ln > len(data):
            raise FormatError('truncated chunk %r' % typ)
        (crc,) = struct.unpack('>I', data[pos + 8 + ln:pos + 12 + ln])
        if zlib.crc32(typ + body) & 0xffffffff != crc:
            raise FormatError('crc mismatch in %r' % typ)
        pos += 12 + ln
        if typ == b'IHDR':
            ihdr = struct.unpack('>IIBBBBB', body)
        elif typ == b'IDAT':
            idat.append(body)
        elif typ == b'IEND':
            seen_end = True
            break
    if ihdr is None or not seen_end:
        raise FormatError('missing IHDR/IEND')
    w, h, depth, ctype, comp, filt, inter = ihdr
    if (depth, ctype, comp, filt) != (8, 6, 0, 0) or inter not in (0, 1):
        raise FormatError('unsupported png layout %r' % (ihdr,))
    try:
        raw = zlib.decompress(b''.join(idat))
    except zlib.error as e:
        raise FormatError('zlib: %s' % e)
    if inter == 1:
        # Adam7: seven reduced images, each filtered on its own, stored one after the other
        rows = [bytearray(w * 4) for _ in range(h)]
        pos = 0
        for x0, y0, dx, dy in ADAM7:
            pw, ph = (w - x0 + dx - 1) // dx, (h - y0 + dy - 1) // dy
            if pw <= 0 or ph <= 0:
                continue
            size = ph * (pw * 4 + 1)
            sub = _unfilter(raw[pos:pos + size], pw, ph)
            pos += size
            for j, line in enumerate(sub):
                for i in range(pw):
                    rows[y0 + j * dy][(x0 + i * dx) * 4:(x0 + i * dx) * 4 + 4] = line[i * 4:i * 4 + 4]
        if pos != len(raw):
            raise FormatError('interlaced image data size %d != %d' % (len(raw), pos))
        return w, h, rows
    return w, h, _unfilter(raw, w, h)


ADAM7 = ((0, 0, 8, 8), (4, 0, 8, 8), (0, 4, 4, 8), (2, 0, 4, 4), (0, 2, 2, 4), (1, 0, 2, 2), (0, 1, 1, 2))


def _unfilter(raw, w, h):
    stride = w * 4
    if len(raw) != h * (stride + 1):
        raise FormatError('image data size %d != %d' % (len(raw), h * (stride + 1)))
    rows = []
    prev = bytearray(stride)
    bpp = 4
    for y in range(h):
        ft = raw[y * (stride + 1)]
        line = bytearray(raw[y * (stride + 1) + 1:(y + 1) * (stride + 1)])
        if ft == 0:
            pass
        elif ft == 1:
            for i in range(bpp, stride):
                line[i] = (line[i] + line[i - bpp]) & 255
        elif ft == 2:
            for i in range(stride):
                line[i] = (line[i] + prev[i]) & 255
        elif ft == 3:
            for i in range(stride):
                a = line[i - bpp] if i >= bpp else 0
                line[i] = (line[i] + ((a + prev[i]) >> 1)) & 255
        elif ft == 4:
            for i in range(stride):
                a = line[i - bpp] if i >= bpp else 0
                c = prev[i - bpp] if i >= bpp else 0
                line[i] = (line[i] + _paeth(a, prev[i], c)) & 255
        else:
            raise FormatError('bad filter type %d' % ft)
        rows.append(line)
        prev = line
    return rows


def _chunk(typ, body):
    return struct.pack('>I', len(body)) + typ + body + struct.pack('>I', zlib.crc32(typ + body) & 0xffffffff)


def png_encode_rgb(w, h, rows):
    """An 8-bit RGB picture without alpha channel (colour type 2; what a screenshot tool writes), from RGBA rows."""
    raw = bytearray()
    for row in rows:
        raw.append(0)
        for x in range(w):
            raw += bytes(row[x * 4:x * 4 + 3])
    return (PNG_SIG + _chunk(b'IHDR', struct.pack('>IIBBBBB', w, h, 8, 2, 0, 0, 0)) + _chunk(b'IDAT', zlib.compress(bytes(raw), 6)) + _chunk(b'IEND', b''))


def png_encode(w, h, rows, filters=None, extra_chunks=(), idat_pieces=1, interlace=False):
    """rows: list of RGBA byte rows.  filters: optional list of filter types per row (0..4).  extra_chunks: ancillary chunks
    (type, data) placed between IHDR and IDAT, as image editors write them (gAMA, pHYs, bKGD, tEXt ...); idat_pieces: the compressed
    stream split over that many IDAT chunks."""
    if interlace:
        # Adam7 (what an image editor's "interlaced" option writes): seven reduced images, filter type 0
        raw = bytearray()
        for x0, y0, dx, dy in ADAM7:
            if (w - x0 + dx - 1) // dx <= 0:
                continue
            for y in range(y0, h, dy):
                raw.append(0)
                for x in range(x0, w, dx):
                    raw += bytes(rows[y][x * 4:x * 4 + 4])
        z = zlib.compress(bytes(raw), 6)
        return (PNG_SIG + _chunk(b'IHDR', struct.pack('>IIBBBBB', w, h, 8, 6, 0, 0, 1)) +
                b''.join(_chunk(t, d) for t, d in extra_chunks) + _chunk(b'IDAT', z) + _chunk(b'IEND', b''))
    stride = w * 4
    raw = bytearray()
    prev = bytes(stride)
    for y, row in enumerate(rows):
        row = bytes(row)
        assert len(row) == stride
        ft = filters[y] if filters else 0
        raw.append(ft)
        if ft == 0:
            raw += row
        elif ft == 1:
            raw += bytes((row[i] - (row[i - 4] if i >= 4 else 0)) & 255 for i in range(stride))
        elif ft == 2:
            raw += bytes((row[i] - prev[i]) & 255 for i in range(stride))
        elif ft == 3:
            raw += bytes((row[i] - (((row[i - 4] if i >= 4 else 0) + prev[i]) >> 1)) & 255 for i in range(stride))
        else:
            raw += bytes((row[i] - _paeth(row[i - 4] if i >= 4 else 0, prev[i], prev[i - 4] if i >= 4 else 0)) & 255
                         for i in range(stride))
        prev = row
    z = zlib.compress(bytes(raw), 6)
    n = max(1, idat_pieces)
    step = (len(z) + n - 1) // n
    idat = b''.join(_chunk(b'IDAT', z[i:i + step]) for i in range(0, len(z), step))
    return (PNG_SIG + _chunk(b'IHDR', struct.pack('>IIBBBBB', w, h, 8, 6, 0, 0, 0)) +
            b''.join(_chunk(t, d) for t, d in extra_chunks) + idat + _chunk(b'IEND', b''))


CART_W, CART_H = 160, 205


def stego_unpack(rows, w):
    """RGBA rows -> bytes, one per pixel: A=bits 7-6, R=5-4, G=3-2, B=1-0."""
    out = bytearray()
    for row in rows:
        for x in range(w):
            r, g, b, a = row[x * 4:x * 4 + 4]
            out.append(((a & 3) << 6) | ((r & 3) << 4) | ((g & 3) << 2) | (b & 3))
    return bytes(out)


def stego_pack(mem, base_rows, w):
    """Put mem bytes into the low 2 bits of base_rows' channels; pixels past len(mem) unchanged."""
    out = []
    i = 0
    for row in base_rows:
        nr = bytearray(row)
        for x in range(w):
            if i < len(mem):
                v = mem[i]
                nr[x * 4 + 0] = (nr[x * 4 + 0] & 0xfc) | ((v >> 4) & 3)
                nr[x * 4 + 1] = (nr[x * 4 + 1] & 0xfc) | ((v >> 2) & 3)
                nr[x * 4 + 2] = (nr[x * 4 + 2] & 0xfc) | (v & 3)
                nr[x * 4 + 3] = (nr[x * 4 + 3] & 0xfc) | ((v >> 6) & 3)
            i += 1
        out.append(nr)
    return out


def upper_bits(rows):
    return [bytes(b & 0xfc for b in row) for row in rows]


# ---------------------------------------------------------------------------
# code area: raw or `:c:` compressed

C_TABLE = b'\x00\n 0123456789abcdefghijklmnopqrstuvwxyz!#%(){}[]<>+=/*:;.,~_'
assert len(C_TABLE) == 60
C_INDEX = {c: i for i, c in enumerate(C_TABLE) if i > 0}
C_HEADER = b':c:\x00'
FUTURE1 = b'if(_update60)_update=function()_update60()_update60()end'
FUTURE2 = b'if(_update60)_update=function()_update60()_update_buttons()_update60()end'
MAX_OFFSET = (255 - 60) * 16 + 15


def c_parse_items(area, limit=None):
    """Validating parse of a `:c:` code area.

    Returns (header_len, items, text, problems).  items: ('lit', byte) / ('esc', byte) /
    ('ref', offset, length).  Decoding stops when header_len bytes have been produced
    (the final item may overshoot; text is the full production, caller truncates)
    or the area ends.  problems lists every departure from the format."""
    problems = []
    if bytes(area[:4]) != C_HEADER:
        raise FormatError('no :c: header')
    n = (area[4] << 8) | area[5]
    if bytes(area[6:8]) != b'\x00\x00':
        problems.append('header bytes 6-7 not zero')
    out = bytearray()
    items = []
    i = 8
    end = len(area) if limit is None else limit
    while len(out) < n and i < end:
        b = area[i]
        if b == 0:
            if i + 1 >= end:
                problems.append('escape at end of area')
                break
            items.append(('esc', area[i + 1]))
            out.append(area[i + 1])
            i += 2
        elif b < 60:
            items.append(('lit', b))
            out.append(C_TABLE[b])
            i += 1
        else:
            if i + 1 >= end:
                problems.append('reference at end of area')
                break
            b2 = area[i + 1]
            off = (b - 60) * 16 + (b2 & 15)
            ln = (b2 >> 4) + 2
            if off == 0:
                problems.append('reference with offset 0 at out=%d' % len(out))
                break
            if off > len(out):
                problems.append('reference offset %d beyond %d produced bytes' % (off, len(out)))
                break
            if ln < 3:
                problems.append('reference of length %d at out=%d' % (ln, len(out)))
            items.append(('ref', off, ln))
            for _ in range(ln):
                out.append(out[-off])
            i += 2
    return n, items, bytes(out), problems, i


def strip_future(text):
    for suf in (FUTURE1, FUTURE2):
        if text.endswith(suf):
            text = text[:-len(suf)]
            if text.endswith(b'\n'):
                text = text[:-1]
    return text


def c_decode(area):
    """Reference decode of a compressed code area -> (text, problems)."""
    n, items, out, problems, used = c_parse_items(area)
    if len(out) < n:
        problems.append('stream ends after %d of %d bytes' % (len(out), n))
    return strip_future(out[:n]), problems


def decode_code_area(area, version=1):
    """Reference decode of the 0x3d00 code area -> text (no normalisation)."""
    if version != 0 and bytes(area[:4]) == C_HEADER:
        return c_decode(area)[0]
    z = bytes(area).find(b'\x00')
    return bytes(area[:z] if z >= 0 else area)


def c_encode_items(items):
    out = bytearray()
    for it in items:
        if it[0] == 'lit':
            out.append(it[1])
        elif it[0] == 'esc':
            out += bytes((0, it[1]))
        else:
            _, off, ln = it
            out += bytes((off // 16 + 60, (off % 16) | ((ln - 2) << 4)))
    return bytes(out)


def c_greedy(text):
    """Simple greedy encoder (longest match, nearest) -> items.  Used for size estimates
    and as a second producer; not claimed to equal PICO-8's choices."""
    items = []
    pos = 0
    n = len(text)
    index = {}
    while pos < n:
        best_len, best_off = 0, 0
        if pos + 3 <= n:
            key = text[pos:pos + 3]
            for cand in reversed(index.get(key, ())):
                off = pos - cand
                if off > MAX_OFFSET:
                    break
                ln = 3
                mx = min(17, n - pos)
                while ln < mx and text[cand + ln] == text[pos + ln]:
                    ln += 1
                if ln > best_len:
                    best_len, best_off = ln, off
                    if ln == mx:
                        break
        if best_len >= 3:
            items.append(('ref', best_off, best_len))
            step = best_len
        else:
            c = text[pos]
            items.append(('lit', C_INDEX[c]) if c in C_INDEX else ('esc', c))
            step = 1
        for k in range(pos, pos + step):
            if k + 3 <= n:
                index.setdefault(text[k:k + 3], []).append(k)
        pos += step
    return items


def c_size(items):
    return sum(1 if it[0] == 'lit' else 2 for it in items)


def c_random_items(text, rng, p_ref=0.7, allow_overlap=True):
    """Randomised well-formed encoder: any earlier occurrence, any length 3..17, overlapping
    references allowed, random literal/reference choice."""
    items = []
    pos = 0
    n = len(text)
    while pos < n:
        cands = []
        if pos >= 1 and n - pos >= 3 and rng.random() < p_ref:
            lo = max(0, pos - MAX_OFFSET)
            # sample some candidate starts
            starts = set()
            for _ in range(12):
                starts.add(rng.randrange(lo, pos))
            starts.update(range(max(lo, pos - 4), pos))
            for s in starts:
                off = pos - s
                ln = 0
                mx = min(17, n - pos)
                # text[s+ln] is valid for overlapping copies too: the produced byte at
                # pos+k equals text[pos+k], so reading text[s+ln] (s+ln may be >= pos)
                # is exactly what a byte-by-byte copy reads.
                while ln < mx and text[s + ln] == text[pos + ln]:
                    ln += 1
                if not allow_overlap:
                    ln = min(ln, off)
                if ln >= 3:
                    cands.append((off, ln))
        if cands:
            off, mx = rng.choice(cands)
            ln = rng.randint(3, mx)
            items.append(('ref', off, ln))
            pos += ln
        else:
            c = text[pos]
            if c in C_INDEX and rng.random() < 0.9:
                items.append(('lit', C_INDEX[c]))
            else:
                items.append(('esc', c))
            pos += 1
    return items


def code_area_from_items(items, length):
    body = C_HEADER + bytes((length >> 8, length & 255, 0, 0)) + c_encode_items(items)
    area = bytearray(CODE_SIZE)
    if len(body) > CODE_SIZE:
        raise FormatError('compressed body does not fit')
    area[:len(body)] = body
    return bytes(area)


def raw_code_area(text):
    if len(text) > CODE_SIZE:
        raise FormatError('raw text does not fit')
    area = bytearray(CODE_SIZE)
    area[:len(text)] = text
    return bytes(area)


def build_cart_memory(regions, code_area, version):
    mem = join_memory(regions) + bytes(code_area) + bytes((version,))
    assert len(mem) == 0x8001
    return mem


def write_p8png(regions, code_area, version, base_rows=None, filters=None):
    """Reference .p8.png writer."""
    if base_rows is None:
        base_rows = [bytearray(b'\x00\x00\x00\xfc' * CART_W) for _ in range(CART_H)]
    mem = build_cart_memory(regions, code_area, version)
    rows = stego_pack(mem, base_rows, CART_W)
    return png_encode(CART_W, CART_H, rows, filters)


def read_p8png(data, strict=True):
    """Reference .p8.png reader -> dict(regions..., code_area, version, rows).  strict=False: a picture of another size that has room
    for the 0x8001 bytes (a cart saved over a picture that is not cartridge-sized) is read the same way, pixel after pixel."""
    w, h, rows = png_decode(data)
    if (w, h) != (CART_W, CART_H) and (strict or w * h < 0x8001):
        raise FormatError('cart image is %dx%d' % (w, h))
    mem = stego_unpack(rows, w)
    res = split_memory(mem)
    res['code_area'] = mem[0x4300:0x8000]
    res['version'] = mem[0x8000]
    res['rows'] = rows
    res['mem'] = mem
    return res
