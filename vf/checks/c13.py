"""C13 — build takes each cart section from exactly the source the arguments name.

Monitor: sources and the previous OUT are written by the reference writers with distinct random contents, so the harness
knows every expected byte.  `p8tool build` is run through pico8.tool.main(argv); OUT is read back with the reference readers
(and with file.from_file; both must agree).  Each section of OUT must equal: the named source's section, the empty default for
--empty-X, else OUT's previous section (or the empty default if OUT did not exist).  A .p8.png OUT keeps its previous label
picture (upper six bits), a .p8 OUT its __label__ section.  Conflicting/unusable arguments must fail and leave OUT untouched.
"""
import itertools
from .. import ambient
import os
import shutil
import tempfile

from .. import carts
from .. import refcodec as rc

LEVEL = 'exploration'
RULE = ('assignments of {unspecified, from .p8, from .p8.png, empty} to the six sections (lua also from a .lua file) x OUT {absent, existing .p8 with/without '
        'label, existing .p8.png with random label pixels} x OUT format {.p8, .p8.png}: thorough enumerates all 4^6 assignments once per (OUT state, format) '
        'combination sampled round-robin; quick uses a pairwise-covering random sample; plus the error classes (--X with --empty-X, missing file, wrong '
        'extension, .lua for a data section, bad OUT extension). Non-trivial: at least one section is taken from a source or emptied; distinct by argv + '
        'OUT-state hash')
ASSUMPTIONS = [
    'music regions are generated with bit 7 of every 4th byte clear (the .p8 format cannot carry it; C03/C04 cover that bit)',
    'code is compared modulo one final newline (the .p8 writer and the raw .p8.png reader each supply one)',
    'the empty default is taken from Game.make_empty_game() at run time and additionally required to be all-zero gfx/gff/map, note-free sfx and silent music channels',
]
EXHAUSTIVE = {'quick': False, 'thorough': True}
PYOPT_KINDS = ('random',)
CLOCALE_KINDS = ('random',)
SECTIONS = ('lua', 'gfx', 'gff', 'map', 'sfx', 'music')
CHOICES = ('none', 'p8', 'png', 'empty')
OUT_STATES = ('absent', 'p8', 'p8label', 'png', 'p8blacklabel', 'p8omitted')
TIMEOUT = {'quick': 1200, 'thorough': 10800}


def plan(tier, seed):
    nsh = 16
    if tier == 'quick':
        specs = [{'kind': 'random', 'count': 14} for _ in range(nsh)]
        specs.append({'kind': 'errors', 'count': 72})
        return specs
    # all 4^6 assignments, dealt round-robin to shards
    allx = list(itertools.product(range(4), repeat=6))
    specs = []
    per = (len(allx) + nsh * 4 - 1) // (nsh * 4)
    for i in range(nsh * 4):
        specs.append({'kind': 'matrix', 'lo': i * per, 'hi': min(len(allx), (i + 1) * per)})
    specs.append({'kind': 'errors', 'count': 200})
    return specs


class Pool:
    """Source carts with known contents, written once per shard."""

    def __init__(self, rng, root):
        self.items = {'p8': [], 'png': [], 'lua': []}
        with open(os.path.join(root, 'helper_a.lua'), 'wb') as fh:
            fh.write(b'helper_a=1\n')
        for i in range(4):
            # (the second source holds what PICO-8 leaves in barely used carts: default pattern rows between used ones)
            regions, _ = carts.random_regions(rng, 'defaultish' if i == 1 else 'uniform')
            regions['music'] = rc.music_mask(regions['music'])
            code = carts.varied_lua(rng, rng.choice((30, 200, 900)))
            if i == 2:
                # a cart that `p8tool build` itself could have produced from a program with packages: its code calls require();
                # as a source cart its code is copied like any other (the file it names exists here, the one below does not)
                code = b'local m=require("helper_a")\n' + code
            # (the first source's name begins with a character that means something to command-line conventions: it is a file name)
            p = os.path.join(root, '%s%s-s%d.p8' % ('@' if i == 0 else '', carts.cart_basename(i * 3 + rng.randrange(3)), i))
            trim, omit = (), ()
            if i >= 2:
                # written the way current PICO-8 writes carts: sections without their trailing default rows, or left out
                from pico8.game.game import Game
                empty = carts.game_regions(Game.make_empty_game())
                rowbytes = {'gfx': 64, 'gff': 128, 'map': 128, 'music': 4, 'sfx': 68}
                trim = ('gfx', 'gff', 'map', 'music', 'sfx') if i == 2 else ('gfx', 'map', 'sfx')
                omit = () if i == 2 else ('gff', 'music')
                for n in trim:
                    nrows = len(regions[n]) // rowbytes[n]
                    keep = max(1, rng.randrange(nrows)) * rowbytes[n]
                    regions[n] = bytes(regions[n][:keep]) + bytes(empty[n][keep:])
                for n in omit:
                    regions[n] = bytes(empty[n])
            with open(p, 'wb') as fh:
                fh.write(rc.write_p8(regions, code, version=rng.choice((8, 16, 33)), trim=trim, omit=omit,
                                     label=carts.random_bytes(rng, 8192) if i % 2 else None))
            self.items['p8'].append({'path': p, 'regions': regions, 'code': code, 'trimmed': bool(trim)})
            regions, _ = carts.random_regions(rng, 'uniform')
            regions['music'] = rc.music_mask(regions['music'])
            code = carts.varied_lua(rng, rng.choice((30, 200, 900)))
            if i == 2:
                code = b'tools=require("not_there")\n' + code
            area = rc.raw_code_area(code) if i % 2 else rc.code_area_from_items(rc.c_greedy(code), len(code))
            p = os.path.join(root, '%s-s%d.p8.png' % (carts.cart_basename(i * 3 + 1 + rng.randrange(3)), i))
            rows = [bytearray(carts.random_bytes(rng, rc.CART_W * 4)) for _ in range(rc.CART_H)]
            with open(p, 'wb') as fh:
                fh.write(rc.write_p8png(regions, area, rng.choice((8, 16, 33)), base_rows=rows))
            self.items['png'].append({'path': p, 'regions': regions, 'code': code})
            if i == 3:
                # a cart as PICO-8 0.2+ saves it: its code area uses the newer compression picotool cannot read; its data sections are
                # as readable as any (it is only ever named for data sections here)
                regions, _ = carts.random_regions(rng, 'uniform')
                regions['music'] = rc.music_mask(regions['music'])
                p = os.path.join(root, 'newformat-s%d.p8.png' % i)
                area = b'\x00pxa' + bytes((0, 40, 0, 30)) + carts.random_bytes(rng, 22)
                with open(p, 'wb') as fh:
                    fh.write(rc.write_p8png(regions, area + bytes(rc.CODE_SIZE - len(area)), 33))
                self.items['png'].append({'path': p, 'regions': regions, 'code': b'', 'no_lua': True})
            code = carts.varied_lua(rng, rng.choice((30, 300)))
            if i % 2:
                # a library-style main file: the chunk ends in a return statement (it is code like any other)
                code = code + rng.choice((b'return vec\n', b'-- export\nreturn {v=1}\n', b'do return end\n', b'return'))
            if i == 2:
                # a 60 fps cart: picotool's .p8.png writer appends PICO-8's `_update60` compatibility line behind such code; the code's own
                # last line and the start of that line (`end` / `if(`) occur earlier in this text, so the last block of the compressed
                # stream reaches past the end of the code into the appended line
                code = (b'function _update60()\n t+=1\n if(t>9) t=0\nend\nif(t==nil) t=0\n' + code +
                        b'function _draw()\n cls()\n if(t>9) t=0\nend\n')
            if i in (0, 3):
                # text of a .lua file that is not Lua code: a commented-out directive line and a long string holding one (the named
                # file exists for the first, not for the second); a .lua source is Lua, its comments and strings are kept as they are
                code = (b'--[[ disabled for release:\n#include helper_a.lua\n]]\nusage=[[\n#include not_there.lua\n#include helper_a.lua\n]]\n' + code
                        if i == 0 else code + b'--[==[\n#include  not_there.p8\n]==]\n')
            p = os.path.join(root, '%s-m%d.lua' % (carts.cart_basename(i * 3 + 2), i))
            with open(p, 'wb') as fh:
                fh.write(code)
            self.items['lua'].append({'path': p, 'code': code, 'returns': bool(i % 2)})
        # a .lua source without code (an empty file, blank lines only): the code it holds is what OUT gets
        for j, blank in enumerate((b'', b'\n', b'  \n\t\n')):
            p = os.path.join(root, 'blank%d.lua' % j)
            with open(p, 'wb') as fh:
                fh.write(blank)
            self.items['lua'].append({'path': p, 'code': blank, 'returns': False, 'blank': True})


def empty_defaults():
    from pico8.game.game import Game
    g = Game.make_empty_game()
    d = carts.game_regions(g)
    d['lua'] = b''.join(g.lua.to_lines())
    return d


def code_equal(got, want):
    return got == want or got == want + b'\n' or got + b'\n' == want or got.rstrip(b'\n') == want.rstrip(b'\n') and abs(len(got) - len(want)) <= 1


def write_out_state(rng, state, path_base):
    """-> (path or None, previous contents dict or None)"""
    regions, _ = carts.random_regions(rng, rng.choice(('uniform', 'uniform', 'defaultish')))
    regions['music'] = rc.music_mask(regions['music'])
    code = carts.varied_lua(rng, rng.choice((0, 40, 400)))
    return regions, code


def refresh_source(rng, pool):
    """Rewrite one pooled source cart in place (same path, new contents): a later build must see the file as it is now."""
    kind = rng.choice(('p8', 'png'))
    it = rng.choice(pool.items[kind])
    regions, _ = carts.random_regions(rng, 'uniform')
    regions['music'] = rc.music_mask(regions['music'])
    code = carts.varied_lua(rng, rng.choice((30, 200)))
    if kind == 'p8':
        data = rc.write_p8(regions, code, version=8)
    else:
        data = rc.write_p8png(regions, rc.raw_code_area(code), 8)
    with open(it['path'], 'wb') as fh:
        fh.write(data)
    it['regions'], it['code'] = regions, code


def failing_build(rng, root):
    """A build that fails inside require() processing (a package in a sub-directory requires a missing module)."""
    from pico8 import tool
    d = os.path.join(root, 'proj')
    os.makedirs(os.path.join(d, 'lib'), exist_ok=True)
    with open(os.path.join(d, 'main.lua'), 'wb') as fh:
        fh.write(b'require("lib/a")\n')
    with open(os.path.join(d, 'lib', 'a.lua'), 'wb') as fh:
        fh.write(b'require("is_missing")\n')
    try:
        tool.main([ambient.vflag(), 'build', os.path.join(d, 'o.p8'), '--lua', os.path.join(d, 'main.lua')])
    except BaseException:
        pass
    shutil.rmtree(d, ignore_errors=True)


def run_build(ctx, rng, pool, root, assign, out_state, out_fmt, lua_from_file, reuse_namespace=False):
    from pico8 import tool
    from pico8.game import file as p8file
    if rng.random() < 0.25:
        refresh_source(rng, pool)
        ctx.feature('source_rewritten_in_place')
    outbase = rng.choice(('out', 'out', 'game-1.2', 'my out', 'out.v2', 'x.p8.bak'))
    ctx.feature('out_name:' + outbase)
    out = os.path.join(root, outbase + ('.p8' if out_fmt == 'p8' else '.p8.png'))
    for f in (os.path.join(root, outbase + '.p8'), os.path.join(root, outbase + '.p8.png')):
        if os.path.exists(f):
            os.remove(f)
    prev = None
    prev_label = None
    prev_rows = None
    exists = out_state != 'absent'
    if not exists and rng.random() < 0.5:
        # OUT does not exist, a cart of the same name in the OTHER format does: it is another file (and stays what it is)
        sib = os.path.join(root, outbase + ('.p8.png' if out_fmt == 'p8' else '.p8'))
        sregions, _ = carts.random_regions(rng, 'uniform')
        sdata = (rc.write_p8png(sregions, rc.raw_code_area(b'sibling=1\n'), 8) if out_fmt == 'p8' else rc.write_p8(sregions, b'sibling=1\n', version=8))
        with open(sib, 'wb') as fh:
            fh.write(sdata)
        ctx.feature('same_name_in_other_format_next_to_absent_out')
    if exists:
        pregions, pcode = write_out_state(rng, out_state, out)
        prev = dict(pregions, lua=pcode)
        omit = ()
        if out_state == 'p8omitted':
            # OUT as current PICO-8 saves a cart that uses few sections: the unused ones are not in the file at all
            empty = carts.game_regions(__import__('pico8.game.game', fromlist=['Game']).Game.make_empty_game())
            omit = tuple(n for n in ('gff', 'map', 'sfx', 'music') if rng.random() < 0.7) or ('sfx',)
            for n in omit:
                pregions[n] = bytes(empty[n])
            prev = dict(pregions, lua=pcode)
        if out_fmt == 'p8':
            # (a label that is entirely colour 0 is a label section like any other)
            prev_label = carts.random_bytes(rng, 8192) if out_state == 'p8label' else bytes(8192) if out_state == 'p8blacklabel' else None
            data = rc.write_p8(pregions, pcode, version=8, label=prev_label, omit=omit)
        else:
            prev_rows = [bytearray(carts.random_bytes(rng, rc.CART_W * 4)) for _ in range(rc.CART_H)]
            data = rc.write_p8png(pregions, rc.raw_code_area(pcode), 8, base_rows=prev_rows)
        with open(out, 'wb') as fh:
            fh.write(data)
    argv = [ambient.vflag(), 'build', out]
    expected = {}
    defaults = empty_defaults()
    desc = {}
    used_files = {}
    if exists:
        used_files[os.path.basename(out)] = data
    for sec, ch in zip(SECTIONS, assign):
        choice = CHOICES[ch]
        desc[sec] = choice
        if choice == 'none':
            expected[sec] = prev[sec] if prev is not None else defaults[sec]
        elif choice == 'empty':
            argv.append('--empty-' + sec)
            expected[sec] = defaults[sec]
        else:
            if sec == 'lua' and lua_from_file:
                src = rng.choice(pool.items['lua'])
                desc[sec] = 'luafile'
                expected[sec] = src['code']
            else:
                src = rng.choice([it for it in pool.items[choice] if not (sec == 'lua' and it.get('no_lua'))])
                expected[sec] = src['code'] if sec == 'lua' else src['regions'][sec]
                if src.get('no_lua'):
                    ctx.feature('section_from_cart_with_newer_code_compression')
            argv += ['--' + sec, src['path']]
            if src.get('trimmed') and sec != 'lua':
                ctx.feature('section_from_p8_with_short_sections')
            if src.get('returns'):
                ctx.feature('lua_file_ending_in_return')
            if src.get('blank'):
                ctx.feature('lua_file_without_code')
            used_files[os.path.basename(src['path'])] = open(src['path'], 'rb').read()
    case = {'argv': [os.path.basename(a) if os.sep in a else a for a in argv[2:]], 'assign': desc,
            'out_state': out_state if exists else 'absent', 'out_fmt': out_fmt, 'files': used_files,
            'expected': dict(expected), 'prev_label': prev_label}
    nontrivial = any(c != 'none' for c in desc.values())
    ctx.case((tuple(argv[3:]), out_state, out_fmt, repr(sorted(desc.items()))), nontrivial=nontrivial)
    for sec in SECTIONS:
        ctx.feature('%s:%s' % (sec, desc[sec]))
    ctx.feature('out_state:' + (out_state if exists else 'absent'))
    ctx.feature('out_fmt:' + out_fmt)
    if rng.random() < 0.3 and len(argv) > 3:
        # the output cart named after the options: `p8tool build --lua main.lua --gfx art.p8 OUT`
        groups = []
        for a in argv[3:]:
            if a.startswith('--'):
                groups.append([a])
            else:
                groups[-1].append(a)
        rng.shuffle(groups)        # (options in any order, so that every one of them gets to stand directly before OUT)
        argv = argv[:2] + [a for grp in groups for a in grp] + [argv[2]]
        case['argv'] = [os.path.basename(a) if os.sep in a else a for a in [argv[-1]] + argv[2:-1]]
        case['out_last'] = True
        ctx.feature('out_named_after_the_options')
    relative = rng.random() < 0.3 and not reuse_namespace
    run_argv = argv
    old_cwd = os.getcwd()
    if relative:
        # the same invocation with paths relative to the working directory, sometimes right after a build that failed half-way
        os.chdir(root)
        run_argv = [os.path.relpath(a, root) if (os.sep in a and a.startswith(root)) else a for a in argv]
        ctx.feature('relative_paths')
        if rng.random() < 0.5:
            failing_build(rng, root)
            ctx.feature('failed_build_before')
    try:
        try:
            if reuse_namespace:
                # HISTORY (library use, e.g. a rebuild loop): ONE parsed arguments object serves two builds.  The first runs while
                # OUT does not exist; OUT is then put into the state under test and the same object is passed to do_build again.
                ns = tool._get_argparser().parse_args(args=run_argv)
                saved = open(out, 'rb').read() if exists else None
                if exists:
                    os.remove(out)
                first = ns.func(ns)
                if first:
                    ctx.violation('first build with the arguments object returned %r' % first, case)
                    return
                os.remove(out)
                if exists:
                    with open(out, 'wb') as fh:
                        fh.write(saved)
                ctx.feature('arguments_object_reused')
                case['history'] = 'the same parsed arguments object was first used for a build while OUT did not exist'
                rcode = ns.func(ns)
            else:
                rcode = tool.main(run_argv)
        except BaseException as e:
            ctx.violation('build raised %r for %s' % (e, case), case)
            return
        if not rcode and not os.path.exists(out):
            ctx.violation('build returned 0 but OUT does not exist where the invocation named it (cwd %s)' % (
                'changed' if os.getcwd() != (root if relative else old_cwd) else 'unchanged'), case)
            return
    finally:
        os.chdir(old_cwd)
    ctx.monitor('builds_run')
    if rcode:
        ctx.violation('build returned %r for a usable invocation %s' % (rcode, case), case)
        return
    data = open(out, 'rb').read()
    try:
        if out_fmt == 'p8':
            ref = rc.read_p8(data)
            got = {s: ref[s] for s in SECTIONS if s != 'lua'}
            got['lua'] = ref['code']
            got_label = ref['label']
        else:
            ref = rc.read_p8png(data)
            got = {s: ref[s] for s in SECTIONS if s != 'lua'}
            got['lua'] = rc.decode_code_area(ref['code_area'], ref['version'])
    except Exception as e:
        ctx.violation('OUT is not readable by the reference reader: %r' % (e,), case)
        return
    ctx.monitor('outputs_read_by_reference')
    for sec in SECTIONS:
        ctx.monitor('sections_compared')
        want = expected[sec]
        if sec == 'lua':
            same = code_equal(got['lua'], want)
        else:
            # (a section that is not in the file encodes the default contents)
            g = got[sec] if got[sec] is not None else defaults[sec]
            got[sec] = g
            same = g == want
        if not same:
            src_kind = desc[sec]
            ctx.violation('section %s of OUT is not the one selected (%s; OUT was %s, format %s): %r... vs expected %r...' % (
                sec, src_kind, out_state, out_fmt, bytes(got[sec][:12]), bytes(want[:12])), case)
            return
    # labels
    if out_fmt == 'p8':
        ctx.monitor('labels_compared')
        want_label = prev_label
        if got_label != want_label and not (want_label is None and got_label is not None and not any(got_label) and not exists):
            # a fresh cart may carry the empty-game default label; a previous label must be kept
            if exists or want_label is not None:
                ctx.violation('.p8 OUT label section %s (OUT was %s)' % (
                    'lost' if got_label is None else 'changed' if want_label is not None else 'appeared', out_state), case)
                return
    else:
        ctx.monitor('labels_compared')
        from . import c04
        want_rows = prev_rows if prev_rows is not None else c04.blank_label_rows()
        if rc.upper_bits(ref['rows']) != rc.upper_bits(want_rows):
            ctx.violation('.p8.png OUT label picture differs from its previous picture (OUT was %s)' % out_state, case)
            return
    # picotool's own reader must agree with the reference reader
    try:
        if out_fmt == 'p8' and any(l.startswith(b'#include') for l in bytes(got['lua']).split(b'\n')):
            # code taken from a .lua file may hold lines that are directives once they stand in a .p8 file (C20): the section is
            # compared as text, the include pass is not part of this property
            from pico8.game.formatter.p8 import P8Formatter
            ctx.feature('out_code_holds_directive_lines')
            with open(out, 'rb') as fh:
                g2 = P8Formatter.from_file(fh, filename=out, do_includes=False)
        else:
            g2 = p8file.from_file(out)
    except Exception as e:
        ctx.violation('picotool cannot load the cart it built: %r' % (e,), case)
        return
    r2 = carts.game_regions(g2)
    for sec in SECTIONS:
        if sec == 'lua':
            if not code_equal(b''.join(g2.lua.to_lines()), got['lua']):
                ctx.violation('picotool and the reference reader disagree on the code of OUT', case)
                return
        elif r2[sec] != got[sec]:
            ctx.violation('picotool and the reference reader disagree on section %s of OUT' % sec, case)
            return
    ctx.monitor('own_reader_agreements')
    # defaults sanity (format-level invariants of "empty")
    d = defaults
    if any(d['gfx']) or any(d['gff']) or any(d['map']):
        ctx.violation('empty default gfx/gff/map is not all zero', case)
    if any(d['sfx'][i * 68 + k] for i in range(64) for k in range(64)):
        ctx.violation('empty default sfx contains notes', case)
    if any(not (b & 0x40) for b in d['music']):
        ctx.violation('empty default music has a non-silent channel', case)


ERROR_KINDS = ('conflict', 'missing', 'wrongext', 'lua_for_data', 'bad_out_ext', 'empty_name', 'empty_name_conflict',
               'source_is_absent_out', 'source_is_out_conflict', 'out_with_unparseable_lua', 'out_is_not_a_cart', 'source_cart_does_not_load')


def run_error(ctx, rng, pool, root, index=0):
    from pico8 import tool
    kind = ERROR_KINDS[index % len(ERROR_KINDS)]
    out_fmt = rng.choice(('p8', 'png'))
    out = os.path.join(root, 'eout.p8' if out_fmt == 'p8' else 'eout.p8.png')
    for f in [os.path.join(root, n) for n in os.listdir(root) if n.startswith('eout')]:
        if os.path.isfile(f):
            os.remove(f)
    exists = rng.random() < 0.6
    if kind == 'source_is_absent_out':
        exists = False
    elif kind == 'source_is_out_conflict':
        exists = True
    before = None
    if exists:
        regions, _ = carts.random_regions(rng, 'uniform')
        data = rc.write_p8(regions, b'x=1\n', version=8) if out_fmt == 'p8' else rc.write_p8png(regions, rc.raw_code_area(b'x=1'), 8)
        with open(out, 'wb') as fh:
            fh.write(data)
        before = data
    sec = SECTIONS[(index // len(ERROR_KINDS)) % 6]
    good = rng.choice(pool.items['p8'])['path']
    argv = [ambient.vflag(), 'build', out]
    # some valid arguments first, so that an implementation that writes early is caught
    other = rng.choice([s for s in SECTIONS if s != sec])
    argv += ['--' + other, rng.choice(pool.items['png'])['path']]
    if kind == 'conflict':
        argv += ['--' + sec, good, '--empty-' + sec]
    elif kind == 'missing':
        argv += ['--' + sec, os.path.join(root, 'does_not_exist.p8')]
    elif kind == 'wrongext':
        bad = os.path.join(root, 'thing.txt')
        with open(bad, 'wb') as fh:
            fh.write(b'x=1\n')
        argv += ['--' + sec, bad]
    elif kind == 'lua_for_data':
        sec = rng.choice(SECTIONS[1:])
        argv += ['--' + sec, rng.choice(pool.items['lua'])['path']]
    elif kind == 'empty_name':
        # a source given as the empty string names no file
        argv += ['--%s=' % sec] if index % 2 else ['--' + sec, '']
    elif kind == 'empty_name_conflict':
        argv += ['--%s=' % sec, '--empty-' + sec]
    elif kind in ('source_is_absent_out', 'source_is_out_conflict'):
        # OUT itself named as a source, under several spellings of its path
        os.makedirs(os.path.join(root, 'sub'), exist_ok=True)
        spell = (out, os.path.join(root, '.', os.path.basename(out)), os.path.join(root, 'sub', '..', os.path.basename(out)))[(index // 3) % 3]
        argv += ['--' + sec, spell]
        if kind == 'source_is_out_conflict':
            argv += ['--empty-' + sec]
    elif kind == 'source_cart_does_not_load':
        # a source that exists and has the right extension but is not a loadable cart (its code has a syntax error; it is some other
        # file): the section cannot be taken from it
        badsrc = os.path.join(root, 'broken_source.p8')
        with open(badsrc, 'wb') as fh:
            fh.write(rng.choice((rc.write_p8(carts.random_regions(rng, 'uniform')[0], b'x = = 1\nfunction f(\n', version=8), b'just some notes\n', b'')))
        argv += ['--' + sec, badsrc]
    elif kind in ('out_with_unparseable_lua', 'out_is_not_a_cart'):
        # OUT exists and cannot be read as a cart (its code is work in progress and does not parse; it is some other file): its
        # sections cannot be carried over, the build fails and the file stays as it is
        out = os.path.join(root, 'eout.p8')
        argv[2] = out
        regions, _ = carts.random_regions(rng, 'uniform')
        before = (rc.write_p8(regions, rng.choice((b'x = = 1\n', b'function f(\n y=1\n', b's="unterminated\n', b'--[[ open comment\n')), version=8)
                  if kind == 'out_with_unparseable_lua' else rng.choice((b'just some notes\n', b'', b'pico-8 cartridge\n', b'\x89PNG\r\n\x1a\n')))
        with open(out, 'wb') as fh:
            fh.write(before)
        exists = True
        argv += ['--' + sec, good]
    else:
        # an output name that is neither a .p8 nor a .p8.png name: another extension, none at all, a picture, a backup name
        out = os.path.join(root, ('eout.txt', 'eout', 'eout.png', 'eout.lua', 'eout.p8.bak', 'eout.p8png')[(index // len(ERROR_KINDS)) % 6])
        ctx.feature('bad_out_name:' + os.path.basename(out))
        argv[2] = out
        before = None
        exists = False
    efiles = {}
    for a in argv[3:]:
        if os.sep in a and os.path.isfile(a):
            efiles[os.path.basename(a)] = open(a, 'rb').read()
    if exists:
        efiles[os.path.basename(out)] = before
    case = {'argv': [os.path.basename(a) if os.sep in a else a for a in argv[2:]], 'error_kind': kind, 'files': efiles}
    ctx.case((kind, tuple(argv[3:]), exists), nontrivial=True)
    ctx.feature('error:' + kind)
    listing = sorted(os.listdir(root))
    try:
        rcode = tool.main(argv)
        err = None
    except BaseException as e:
        rcode, err = 1, e
    ctx.monitor('error_invocations')
    if not rcode and err is None:
        ctx.violation('unusable invocation (%s) succeeded: %s' % (kind, argv[2:]), case)
        return
    now = open(out, 'rb').read() if os.path.exists(out) else None
    if now != before or sorted(os.listdir(root)) != listing:
        ctx.violation('failed build (%s) touched OUT or created files' % kind, case)


def run_shard(spec, ctx):
    rng = ctx.rng
    root = tempfile.mkdtemp(prefix='vf-c13-')
    try:
        pool = Pool(rng, root)
        if spec['kind'] == 'errors':
            for k in range(spec['count']):
                run_error(ctx, rng, pool, root, k)
            ctx.sample({'error_classes': list(ERROR_KINDS)})
            return
        if spec['kind'] == 'random':
            # pairwise-ish: random assignments, every choice equally likely per section
            for i in range(spec['count']):
                assign = [rng.randrange(4) for _ in SECTIONS]
                run_build(ctx, rng, pool, root, assign, rng.choice(OUT_STATES), rng.choice(('p8', 'png')), rng.random() < 0.4,
                          reuse_namespace=(i % 4 == 3))
        else:
            allx = list(itertools.product(range(4), repeat=6))
            combos = [(s, f) for s in OUT_STATES for f in ('p8', 'png')]
            for k in range(spec['lo'], spec['hi']):
                s, f = combos[k % len(combos)]
                run_build(ctx, rng, pool, root, list(allx[k]), s, f, (k // 7) % 3 == 0, reuse_namespace=(k % 6 == 5))
                ctx.feature('matrix_assignments')
        ctx.sample({'argv': ['build', 'out.p8.png', '--lua', 'src1.p8', '--empty-gfx', '--sfx', 'src2.p8.png']})
    finally:
        shutil.rmtree(root, ignore_errors=True)


def replay(case, ctx):
    """Rebuilds the recorded files in a temp dir, re-runs the recorded invocation and compares every section of OUT with
    the recorded expectation (reference reader)."""
    from pico8 import tool
    root = tempfile.mkdtemp(prefix='vf-c13-')
    try:
        for name, data in case.get('files', {}).items():
            with open(os.path.join(root, name), 'wb') as fh:
                fh.write(data)
        argv = [ambient.vflag(), 'build'] + [os.path.join(root, a) if (a.endswith(('.p8', '.png', '.lua', '.txt'))) else a for a in case['argv']]
        out = argv[2]
        if case.get('out_last'):
            argv = argv[:2] + argv[3:] + [argv[2]]
        ctx.case(repr(case['argv']))
        if 'error_kind' in case:
            before = open(out, 'rb').read() if os.path.exists(out) else None
            try:
                rcode = tool.main(argv)
            except BaseException:
                rcode = 1
            now = open(out, 'rb').read() if os.path.exists(out) else None
            if not rcode:
                ctx.violation('unusable invocation (%s) succeeded' % case['error_kind'], case)
            elif now != before:
                ctx.violation('failed build (%s) touched OUT' % case['error_kind'], case)
            return
        try:
            rcode = tool.main(argv)
        except BaseException as e:
            ctx.violation('build raised %r' % (e,), case)
            return
        if rcode:
            ctx.violation('build returned %r for a usable invocation' % rcode, case)
            return
        data = open(out, 'rb').read()
        if case['out_fmt'] == 'p8':
            ref = rc.read_p8(data)
            got = {s: ref[s] for s in SECTIONS if s != 'lua'}
            got['lua'] = ref['code']
            if ref['label'] != case.get('prev_label') and (case['out_state'] != 'absent' or case.get('prev_label') is not None):
                ctx.violation('.p8 OUT label section lost or changed', case)
                return
        else:
            ref = rc.read_p8png(data)
            got = {s: ref[s] for s in SECTIONS if s != 'lua'}
            got['lua'] = rc.decode_code_area(ref['code_area'], ref['version'])
            prev = case.get('files', {}).get(os.path.basename(out))
            if prev is not None and rc.upper_bits(ref['rows']) != rc.upper_bits(rc.read_p8png(prev)['rows']):
                ctx.violation('.p8.png OUT label picture differs from its previous picture', case)
                return
        for sec in SECTIONS:
            want = case['expected'][sec]
            same = code_equal(got['lua'], want) if sec == 'lua' else got[sec] == want
            if not same:
                ctx.violation('section %s of OUT is not the one selected (%s)' % (sec, case['assign'].get(sec)), case)
                return
    finally:
        shutil.rmtree(root, ignore_errors=True)


def gates(m, tier):
    f, mon = m['features'], m['monitors']
    missed = []
    for sec in SECTIONS:
        for ch in CHOICES:
            if f.get('%s:%s' % (sec, ch), 0) < 3 and not (sec == 'lua' and ch in ('p8', 'png') and f.get('lua:luafile', 0) >= 3 and False):
                missed.append('%s:%s seen %d times' % (sec, ch, f.get('%s:%s' % (sec, ch), 0)))
    if f.get('out_named_after_the_options', 0) < 10 or f.get('lua_file_without_code', 0) < 3:
        missed.append('OUT named after the options: %d; .lua source without code: %d' % (f.get('out_named_after_the_options', 0), f.get('lua_file_without_code', 0)))
    if f.get('same_name_in_other_format_next_to_absent_out', 0) < 3:
        missed.append('absent OUT with a cart of the same name in the other format: %d' % f.get('same_name_in_other_format_next_to_absent_out', 0))
    if f.get('lua:luafile', 0) < 3:
        missed.append('lua from a .lua file: %d' % f.get('lua:luafile', 0))
    for s in OUT_STATES:
        if f.get('out_state:' + s, 0) < 3:
            missed.append('OUT state %s: %d' % (s, f.get('out_state:' + s, 0)))
    for s in ('p8', 'png'):
        if f.get('out_fmt:' + s, 0) < 10:
            missed.append('OUT format %s: %d' % (s, f.get('out_fmt:' + s, 0)))
    for k in ERROR_KINDS:
        if f.get('error:' + k, 0) < 2:
            missed.append('error class %s: %d' % (k, f.get('error:' + k, 0)))
    if tier == 'thorough' and f.get('matrix_assignments', 0) != 4096:
        missed.append('matrix assignments run: %d of 4096' % f.get('matrix_assignments', 0))
    if f.get('section_from_p8_with_short_sections', 0) < 10 or f.get('lua_file_ending_in_return', 0) < 5:
        missed.append('sections from .p8 sources with short sections: %d; lua files ending in return: %d' % (
            f.get('section_from_p8_with_short_sections', 0), f.get('lua_file_ending_in_return', 0)))
    if f.get('section_from_cart_with_newer_code_compression', 0) < 5:
        missed.append('sections from a cart with the newer code compression: %d' % f.get('section_from_cart_with_newer_code_compression', 0))
    if f.get('arguments_object_reused', 0) < 20:
        missed.append('builds with a reused arguments object: %d' % f.get('arguments_object_reused', 0))
    if f.get('relative_paths', 0) < 20 or f.get('failed_build_before', 0) < 5:
        missed.append('relative-path builds %d, after a failed build %d' % (f.get('relative_paths', 0), f.get('failed_build_before', 0)))
    if mon.get('sections_compared', 0) < 600:
        missed.append('sections compared: %d' % mon.get('sections_compared', 0))
    return missed
