"""C07 — the lexer agrees with the PICO-8/Lua lexical grammar on kinds, extents, values.

Differential monitor: picotool's token list (pico8.lua.lexer.Lexer, as Lua.from_lines builds it) is compared
element-wise with the reference lexer (vf.reflex, written from Lua 5.2 §3.1 + the PICO-8 additions): kind,
extent, line/column of every token including whitespace and comments, decoded string bytes, numeric value;
and the single-chunk run is compared with the per-line-chunk run.  Only sources the reference accepts are
in the domain.
"""
import io
from .. import ambient
import itertools

from .. import lexcmp, reflex, progen, layout
from .. import refcodec as rc
from .. import carts

LEVEL = 'exploration'
RULE = ('enumerators: every ordered pair from a pool of all 46 symbols, all 22 keywords and representative names/numbers/strings/comments, '
        'written adjacent and one space apart (complete over the pool); numeric literal forms x letter case x neighbours; every escape form x '
        'next-character class and every raw byte in both quote kinds, long brackets level 0-3; keywords as prefix/suffix/infix of names and next to '
        'P8SCII bytes >= 0x80; plus generated programs in random layouts (LF/CRLF). Each source is lexed as one chunk and as per-line chunks, a sample '
        'also through reference-written .p8 / .p8.png files. Non-trivial: >= 2 significant tokens; distinct by source hash')
ASSUMPTIONS = [
    'sources the reference lexer rejects (malformed numerals such as 1..x, unknown escapes, raw line breaks in quoted strings) are outside the domain',
    '`::name::` is compared with picotool\'s single label token by folding the reference\'s three tokens; a `::` that is not part of such a tight label is outside the dialect',
    'lone-CR line ends and \\z are not generated',
    'number values are compared as floats with relative tolerance 1e-12',
    'the absolute token count `stats` reports is not judged (no property states PICO-8\'s counting rule); only that a string literal / name counts the same whatever it spells',
]
EXHAUSTIVE = {'quick': False, 'thorough': False}
PYOPT_KINDS = ('programs',)
KNOWN_KEYS = {'exp-plus-sign', 'keyword-glyph-boundary', 'long-comment-level', 'number-value-upper-or-empty-int',
              'longstring-first-newline', 'hex-escape', 'comment-swallows-cr', 'backslash-crlf', 'nul-escape-before-digit'}

NAMES = [b'x', b'_a1', b'end_', b'\x80', b'n\xff']
NUMS = [b'1', b'12.5', b'3.', b'.5', b'1e5', b'1e-5', b'0x1f', b'0x1.8', b'0b101', b'0b1.1']
STRS = [b'"s"', b"'t'", b'[[u]]', b'[=[v]=]', b'""']
COMMENTS = [b'--c', b'//c', b'--[[c]]', b'--[=[c]=]']
OTHER = [b'?', b'::l::']


def pool():
    return ([(s, 'symbol') for s in reflex.SYMBOLS] + [(k, 'keyword') for k in sorted(reflex.KEYWORDS)] +
            [(n, 'name') for n in NAMES] + [(n, 'number') for n in NUMS] + [(s, 'string') for s in STRS] +
            [(c, 'comment') for c in COMMENTS] + [(o, 'other') for o in OTHER])


def plan(tier, seed):
    specs = []
    P = len(pool())
    for i in range(8):
        specs.append({'kind': 'pairs', 'slice': [i, 8]})
    specs.append({'kind': 'numbers'})
    specs.append({'kind': 'strings'})
    specs.append({'kind': 'idents'})
    specs.append({'kind': 'bytes_through_files'})
    for i in range(2 if tier == 'quick' else 8):
        specs.append({'kind': 'long_lines', 'count': 24 if tier == 'quick' else 60})
    n = 12 if tier == 'quick' else 48
    for i in range(n):
        specs.append({'kind': 'programs', 'count': 120 if tier == 'quick' else 700, 'files': i < 2})
    return specs


def classify(src, ref_tok, desc, rt, idx):
    """Mechanism key from the literal form of the first diverging reference token."""
    t = ref_tok
    if t is None:
        return None
    if t.kind == 'number' and (b'e+' in t.raw.lower()) and 'value' not in desc:
        return 'exp-plus-sign'
    if t.kind == 'number' and ('value' in desc) and (t.raw[:2] in (b'0X', b'0B') or t.raw[2:3] == b'.'):
        return 'number-value-upper-or-empty-int'
    if t.kind == 'comment' and t.long and not t.raw.startswith(b'--[['):
        return 'long-comment-level'
    if t.kind == 'comment' and not t.long and src[t.off + len(t.raw):t.off + len(t.raw) + 2] == b'\r\n':
        return 'comment-swallows-cr'
    if t.kind == 'name' and any(c >= 128 for c in t.raw) and 'kind name vs picotool keyword' in desc:
        return 'keyword-glyph-boundary'
    if t.kind == 'string' and t.long and t.raw[t.raw.index(b'[', 1) + 1:][:1] in (b'\n', b'\r') and 'picotool value' in desc:
        return 'longstring-first-newline'
    if t.kind == 'string' and not t.long:
        if b'\\x' in t.raw and ('picotool value' in desc):
            return 'hex-escape'
        if (b'\\\r\n' in t.raw or b'\\\n\r' in t.raw):
            return 'backslash-crlf'
    return None


def check_source(ctx, src, tag, files=False):
    rt, err = reflex.try_lex(src)
    if err is not None:
        ctx.feature('out_of_domain:' + tag)
        return
    rt = lexcmp.merge_labels(rt)
    if any(t.kind == 'symbol' and t.raw == b'::' for t in rt):
        # `::` only occurs in labels, which picotool's dialect writes `::name::` without inner whitespace
        ctx.feature('out_of_domain:bare-double-colon')
        return
    nsig = sum(1 for t in rt if t.sig)
    ctx.case(src, nontrivial=nsig >= 2)
    ctx.feature('src:' + tag)
    for t in rt:
        if t.kind == 'keyword':
            ctx.extra.setdefault('keywords', set()).add(t.raw)
        elif t.kind == 'symbol':
            ctx.extra.setdefault('symbols', set()).add(t.raw)
        elif t.kind == 'label':
            ctx.extra.setdefault('symbols', set()).add(b'::')
    case = {'src': src, 'tag': tag}
    try:
        pt = lexcmp.picotool_tokens(src)
    except Exception as e:
        # find the reference token at the reported position for classification
        ln = getattr(e, 'lineno', None)
        culprit = None
        if ln is not None:
            # LexerError positions are 1-based for syntax errors
            for t in rt:
                if t.line == ln - 1 and t.col <= getattr(e, 'charno', 1) - 1 < t.col + max(1, len(t.raw)):
                    culprit = t
                    break
            if culprit is None:
                for t in rt:
                    if t.line <= ln - 1 <= t.line + t.raw.count(b'\n') and t.kind in ('string', 'comment'):
                        culprit = t
        # a token preceding the failure point may be the real cause (e.g. an unsupported comment form)
        key = None
        for t in rt:
            k = classify(src, t, 'kind name vs picotool keyword value picotool value', rt, 0)
            if k in ('long-comment-level', 'exp-plus-sign', 'backslash-crlf') and (culprit is None or t.off <= culprit.off):
                key = k
                break
        ctx.violation('lexer raised %s on a source the grammar accepts' % (e,), case, key=key)
        return
    ctx.monitor('token_lists_compared')
    ctx.monitor('tokens_compared', len(rt))
    d = lexcmp.first_divergence(rt, pt)
    if d is not None:
        i, desc, tok = d
        ctx.violation('token %d: %s' % (i, desc), case, key=classify(src, tok, desc, rt, i))
        return
    # chunking independence
    try:
        pc = lexcmp.picotool_tokens(src, chunked=True)
    except Exception as e:
        ctx.violation('per-line chunks: lexer raised %s' % (e,), case)
        return
    ctx.monitor('chunked_runs_compared')
    if not lexcmp.tokens_equal(pt, pc):
        ctx.violation('tokenisation differs between one chunk and per-line chunks', case)
        return
    # the same Lexer object fed in several calls (what Lua.update_from_lines does when code arrives in portions): same tokens, and
    # the line numbers go on counting
    ends = [t.off + len(t.raw) for t in rt if t.kind == 'newline']
    if len(ends) >= 2 and ctx.monitors.get('chunked_runs_compared', 0) % 2 == 0:
        k = ctx.rng.randint(1, min(3, len(ends) - 1))
        cuts = sorted(ctx.rng.sample(ends[:-1], k))
        try:
            pm = lexcmp.picotool_tokens_in_calls(src, cuts)
        except Exception as e:
            ctx.violation('text handed to one lexer in %d calls (cut at line ends %s): lexer raised %s' % (k + 1, cuts, e), case)
            return
        ctx.monitor('multi_call_runs_compared')
        dm = lexcmp.first_divergence(rt, pm)
        if dm is not None:
            ctx.violation('text handed to one lexer in %d calls (cut at line ends %s): token %d: %s' % (k + 1, cuts, dm[0], dm[1]), case)
            return
    if files and b'\r' not in src and b'\x00' not in src:
        from pico8.game import file as p8file
        import tempfile, os
        regions, _ = carts.random_regions(ctx.rng, 'zero')
        with tempfile.TemporaryDirectory() as d:
            p1 = os.path.join(d, 'a.p8')
            with open(p1, 'wb') as fh:
                fh.write(rc.write_p8_variant(ctx.rng, regions, src, version=ambient.VERSION[0]))
            try:
                g = p8file.from_file(p1)
            except Exception as e:
                ctx.violation('source delivered through a .p8 file: %r' % (e,), case)
                return
            want = src if src.endswith(b'\n') else src + b'\n'
            rt2 = lexcmp.merge_labels(reflex.lex(want))
            dd = lexcmp.first_divergence(rt2, g.lua.tokens)
            ctx.monitor('p8_file_deliveries')
            if dd is not None:
                ctx.violation('through .p8 file: token %d: %s' % (dd[0], dd[1]), case, key=classify(want, dd[2], dd[1], rt2, dd[0]))
                return
            if len(src) < 15000 and b'\x00' not in src:
                p2 = os.path.join(d, 'a.p8.png')
                with open(p2, 'wb') as fh:
                    fh.write(rc.write_p8png(regions, rc.raw_code_area(src), 8))
                try:
                    g = p8file.from_file(p2)
                except Exception as e:
                    ctx.violation('source delivered through a .p8.png file: %r' % (e,), case)
                    return
                want = src + b'\n'
                rt3 = lexcmp.merge_labels(reflex.lex(want))
                dd = lexcmp.first_divergence(rt3, g.lua.tokens)
                ctx.monitor('png_file_deliveries')
                if dd is not None:
                    ctx.violation('through .p8.png file: token %d: %s' % (dd[0], dd[1]), case,
                                  key=classify(want, dd[2], dd[1], rt3, dd[0]))


def expected_listtokens(rt):
    """What `p8tool listtokens` must print for the reference token list (format of pico8.tool.listtokens: newlines as line
    breaks, <value> for blanks and comments, <position:value> for the others)."""
    out = []
    pos = 0
    for t in rt:
        if t.kind == 'newline':
            out.append('\n')
        elif t.kind in ('space', 'comment'):
            out.append('<{}>'.format(t.raw))
        else:
            if t.kind == 'string':
                v = t.value
            elif t.kind == 'number':
                v = float(t.value)
            else:
                v = t.raw
            out.append('<{}:{}>'.format(pos, v))
            pos += 1
    out.append('\n')
    return ''.join(out)


def check_listtokens(ctx, sources, workdir):
    """Several carts on one command line; the printed token list of each must be the reference's."""
    import io as _io
    import os
    from pico8 import tool, util
    paths = []
    regions, _ = carts.random_regions(ctx.rng, 'zero')
    for k, src in enumerate(sources):
        p = os.path.join(workdir, 'lt%d.p8' % k)
        with open(p, 'wb') as fh:
            fh.write(rc.write_p8_variant(ctx.rng, regions, src, version=ambient.VERSION[0]))
        paths.append(p)
    buf = _io.StringIO()
    old_stream, old_verb = util._write_stream, util._verbosity
    util._write_stream = buf
    util.set_verbosity(util.VERBOSITY_NORMAL)
    try:
        rcode = tool.main(['listtokens'] + paths)
    except BaseException as e:
        rcode = e
    finally:
        util._write_stream = old_stream
        util.set_verbosity(old_verb)
    case = {'src': sources[-1], 'tag': 'listtokens', 'all_sources': sources}
    ctx.monitor('listtokens_runs')
    if rcode:
        ctx.violation('p8tool listtokens failed on lexable, parseable carts: %r' % (rcode,), case)
        return
    want = ''
    for p, src in zip(paths, sources):
        full = src if src.endswith(b'\n') else src + b'\n'
        rt = lexcmp.merge_labels(reflex.lex(full))
        if len(paths) > 1:
            want += '=== {} ===\n'.format(p)
        want += expected_listtokens(rt)
    got = buf.getvalue()
    if got != want:
        d = next((i for i in range(min(len(got), len(want))) if got[i] != want[i]), min(len(got), len(want)))
        ctx.violation('p8tool listtokens prints a different token list at output offset %d: %r vs expected %r' % (
            d, got[max(0, d - 40):d + 40], want[max(0, d - 40):d + 40]), case)


def gen_numbers():
    forms = []
    for fs in progen.NUM_FORMS.values():
        forms += fs
    forms += [b'0', b'00', b'007', b'1.', b'1.0e1', b'9e0', b'0xAbC', b'0Xabc', b'0x0.0', b'0b0.0', b'0B0.1', b'1E5', b'1E+5', b'1e-05',
              b'0x.F', b'0X.f', b'123456', b'0.000001', b'32767.99999']
    seen = set()
    for f in forms:
        for v in {f, f.upper(), f.lower()}:
            for pre in (b'', b'x=', b'-', b'x..', b'(', b'a ', b'{'):
                for post in (b'', b' ', b'\n', b')', b'..x', b' ..x', b',', b'+1', b'-1', b'e', b' e', b'.x', b':x', b']', b'==1', b'x', b' and'):
                    s = pre + v + post
                    if s not in seen:
                        seen.add(s)
                        yield s
    for f in progen.gen_numerals():
        for pre in (b'', b'x='):
            for post in (b'', b'\n', b' ..x'):
                s = pre + f + post
                if s not in seen:
                    seen.add(s)
                    yield s


def gen_strings():
    escs = [b'\\a', b'\\b', b'\\f', b'\\n', b'\\r', b'\\t', b'\\v', b'\\\\', b'\\"', b"\\'", b'\\\n', b'\\\r\n', b'\\*', b'\\#', b'\\-', b'\\|',
            b'\\+', b'\\^', b'\\0', b'\\1', b'\\9', b'\\00', b'\\12', b'\\000', b'\\001', b'\\010', b'\\014', b'\\015', b'\\065', b'\\127',
            b'\\255', b'\\x00', b'\\x41', b'\\xfF', b'\\x7f', b'\\14', b'\\15']
    nexts = [b'', b'0', b'7', b'a', b'f', b'F', b'g', b'"', b"'", b'\\\\', b'\\n', b' ', b'x']
    for q in (b'"', b"'"):
        for e in escs:
            for nx in nexts:
                if nx == q:
                    continue
                yield b's=' + q + e + nx + q + b'\n'
                yield b's=' + q + b'a' + e + nx + q
        for b in range(256):
            if b in (10, 13, 92) or bytes([b]) == q:
                continue
            yield b's=' + q + bytes([b]) + q + b'\n'
            yield b's=' + q + bytes([b]) + b'1' + q
    # every escape form followed by 2- and 3-character tails (a re-spelling that merges an escape with what follows
    # needs more than one following character to show)
    for q in (b'"', b"'"):
        for e in escs:
            for n in (2, 3):
                for tail in itertools.product(b'0149ax', repeat=n):
                    yield b's=' + q + e + bytes(tail) + q + b'\n'
    # quoted literals continued over physical lines by backslash-newline, whose continuation lines look like something else: a comment,
    # a directive, a section header, a closing quote of the other kind
    for q in (b'"', b"'"):
        for cont in (b'-- not a comment', b'// neither', b'--[[ nor this ]]', b'#include x.lua', b'__gfx__', b'  -- indented', b'\t--x',
                     b'-->8', b'' , b"it's" if q == b'"' else b'say "hi"'):
            yield b's=' + q + b'first\\\n' + cont + b'\\\n' + b'last' + q + b'\nx=1\n'
            yield b'print(' + q + b'a\\\n' + cont + q + b')'
    for lvl in range(4):
        eq = b'=' * lvl
        for body in (b'', b'x', b'\nx', b'\r\nx', b'x\ny', b']', b']]' if lvl else b']', b']' + b'=' * max(0, lvl - 1) + b']' if lvl else b'x',
                     b'[[', b'--', b'"', b'\\', b'\\n', b'\x00\xff', b'\n', b'\n\n'):
            yield b't=[' + eq + b'[' + body + b']' + eq + b']\n'
            yield b'--[' + eq + b'[' + body + b']' + eq + b']x=1\n'
            yield b'x=1 --[' + eq + b'[' + body + b']' + eq + b'] y=2'
    for c in (b'--', b'--x', b'-- [[x]]', b'--[x', b'--[=x', b'--[==', b'//', b'//x', b'// --[[', b'--//', b'---', b'----[[x]]',
              b'--[[x]]--y', b'--\r\nx=1', b'//c\r\ny=2', b'--[[a\r\nb]]\r\n'):
        yield c
        yield c + b'\n'
        yield b'x=1 ' + c + b'\ny=2\n'


def gen_idents():
    kws = sorted(reflex.KEYWORDS)
    for k in kws:
        for s in (k, k + b'x', b'x' + k, k + b'_', b'_' + k, k + b'1', k + b'\x80', b'\x80' + k, b'x\x80' + k, k + b'\xff\xfe', k.upper(),
                  k.capitalize(), k + b' ' + k, k + b'.' + k, k + b'(', b'(' + k + b')', k + b'\n' + k, k + b'"s"', k + b'1', b'1' + b' ' + k,
                  k + b'--c', k + b'..', b'..' + k, k + b'::', b'::' + k + b'x::', b'?' + k, k + b'?'):
            yield s
    for s in (b'?', b'?"x"', b'?x', b'? x', b'x?', b'a.b.c', b'a:b()', b'a::b', b'::a::', b'::_1::', b'::\x80::', b'goto a', b'\x80\x81=1', b'_=1',
              b'__index', b'a1b2', b'A', b'Z_9'):
        yield s
        yield s + b'\n'


def run_shard(spec, ctx):
    rng = ctx.rng
    kind = spec['kind']
    if kind == 'pairs':
        P = pool()
        i, k = spec['slice']
        for ai in range(i, len(P), k):
            a, ka = P[ai]
            for b, kb in P:
                for sep in (b'', b' '):
                    src = a + sep + b
                    # line comments swallow what follows: still a valid comparison
                    check_source(ctx, src + b'\n', 'pair')
                    ctx.feature('pair_sources')
        ctx.sample({'pair_source': P[i][0] + b' ' + P[-1][0]})
    elif kind == 'numbers':
        for s in gen_numbers():
            check_source(ctx, s, 'number')
        ctx.sample({'number_source': b'x=0X1F..x'})
    elif kind == 'strings':
        for s in gen_strings():
            check_source(ctx, s, 'string')
        # the kind of a token as `stats` uses it: a string literal is one token of kind string whatever it spells, so the
        # reported token count cannot depend on the literal's content (nor a name's spelling)
        from pico8.lua import lua as _lua

        def count(src):
            return _lua.Lua.from_lines([src], version=ambient.VERSION[0]).get_token_count()
        base = {q: count(b'x=' + q) for q in (b'"q"', b"'q'", b'[[q]]', b'[=[q]=]')}
        for sp in (b'.', b':', b')', b']', b'}', b'local', b'end', b'..', b'e', b'1e5', b'(', b'=', b'--', b'', b'if', b'\n'.replace(b'\n', b'n')):
            for q, form in ((b'"q"', b'"%s"'), (b"'q'", b"'%s'"), (b'[[q]]', b'[[%s]]'), (b'[=[q]=]', b'[=[%s]=]')):
                if sp == b']' and form.startswith(b'[['):
                    continue
                src = b'x=' + form.replace(b'%s', sp)
                ctx.case(src + b'#count')
                ctx.monitor('stats_kind_checks')
                try:
                    c = count(src)
                except Exception as e:
                    ctx.violation('stats token count raised %r on %r' % (e, src), {'src': src, 'tag': 'count'})
                    continue
                if c != base[q]:
                    ctx.violation('stats counts %r as %d tokens but %r as %d: the string literal is not treated as a string token' % (
                        src, c, b'x=' + q, base[q]), {'src': src, 'tag': 'count'})
        for nm in (b'e', b'end_', b'local_', b'x1e5', b'_'):
            ctx.monitor('stats_kind_checks')
            if count(nm + b'=1') != count(b'zz=1'):
                ctx.violation('stats counts the name %r differently from other names' % nm, {'src': nm + b'=1', 'tag': 'count'})
        ctx.sample({'string_source': b's="\\0001"'})
    elif kind == 'idents':
        for s in gen_idents():
            check_source(ctx, s, 'ident')
    elif kind == 'bytes_through_files':
        # each byte value inside a line comment, a quoted string and a long string, delivered as a .p8 and a .p8.png file
        for b in range(1, 256):
            if b in (10, 13):
                continue
            c = bytes([b])
            q = c if b not in (34, 92) else b'\\' + c
            src = b'x=1 --a' + c + b'b c=3\ny="' + q + b'z" w=[[' + (c if b != 93 else b'') + b'v]]\n//' + c + b' k=2\nz=4\n'
            check_source(ctx, src, 'bytes-file', files=True)
        ctx.sample({'bytes_file_source': b'x=1 --a\x0bb c=3\n'})
    elif kind == 'long_lines':
        # physical lines of 8..40 kB (data tables, minified code on one line): any fixed-size windowing inside the lexer would cut
        # a token; the token falling on each power-of-two offset varies from line to line
        P = [x for x in pool() if x[1] in ('symbol', 'keyword', 'name', 'number', 'string') and b'\n' not in x[0] and b'\r' not in x[0]
             and x[0] != b'::']
        for i in range(spec['count']):
            target = rng.choice((4200, 8300, 8300, 9000, 16500, 16500, 33000, 40000)) if i % 6 else 70000
            parts = []
            n = 0
            while n < target:
                r = rng.random()
                if r < 0.1:
                    tok = b'"' + bytes(rng.choice(b'abc \\') for _ in range(rng.randint(1, 40))).replace(b'\\', b'\\n') + b'"'
                elif r < 0.15:
                    tok = b'name_' + bytes(rng.choice(b'abcdefghijklmnopqrstuvwxyz_0123456789') for _ in range(rng.randint(1, 30)))
                elif r < 0.2:
                    tok = b'%d.%d' % (rng.randrange(10 ** 6), rng.randrange(10 ** 5))
                else:
                    tok = rng.choice(P)[0]
                parts.append(tok)
                n += len(tok) + 1
            src = b' '.join(parts)
            tailk = i % 4
            if tailk == 1:
                src += b' --' + bytes(rng.choice(b'abc d-[]"') for _ in range(rng.randint(100, 9000)))
            elif tailk == 2:
                src += b'\nx=1\n'
            elif tailk == 3:
                src = b'y=2\n' + src + b'\n'
            if reflex.try_lex(src)[1] is not None:
                ctx.monitor('generator_rejects')
                continue
            ctx.feature('long_line_sources')
            ctx.feature('long_line_over_%dk' % (8 if len(src) < 16384 else 16 if len(src) < 32768 else 32 if len(src) < 65536 else 64)
                        if len(src) > 8192 else 'long_line_under_8k')
            check_source(ctx, src, 'long-line')
            if i % 4 == 0:
                # a complete program on one long line (a data table), also delivered through .p8 and .p8.png files
                n = rng.choice((8300, 12000, 17000))
                items = []
                ln = 0
                while ln < n:
                    r = rng.random()
                    it = (b'%d' % rng.randrange(70000) if r < 0.4 else b'"%s"' % bytes(rng.choice(b'abcxyz ') for _ in range(rng.randint(0, 12)))
                          if r < 0.7 else b'k%d' % rng.randrange(10 ** rng.randint(1, 9)) if r < 0.9 else b'0x%x.%x' % (rng.randrange(4096), rng.randrange(256)))
                    items.append(it)
                    ln += len(it) + 1
                prog = b'd={' + b','.join(items) + b'}' + (b'\n' if i % 8 else b' -- end of data\nprint(#d)\n')
                ctx.feature('long_line_programs_through_files')
                check_source(ctx, prog, 'long-line', files=True)
        ctx.sample({'long_line': 'one physical line of up to 70000 bytes made of pool tokens separated by single spaces'})
    elif kind == 'programs':
        for i in range(spec['count']):
            p = progen.gen_program(rng, {'depth': rng.choice((1, 2, 2, 3)), 'max_stmts': 4, 'exotic_numbers': True,
                                         'exotic_strings': True})
            src = layout.render(p, rng)
            if src is None:
                ctx.monitor('generator_rejects')
                continue
            for f in p.feats:
                if f.startswith(('num:', 'str:')):
                    ctx.feature(f)
            check_source(ctx, src, 'program', files=spec.get('files') and i % 4 == 0)
            if spec.get('files') and i % 6 == 1 and b'\r' not in src:
                import tempfile
                batch = ctx.extra.setdefault('_lt_batch', [])
                batch.append(src)
                if len(batch) == 2:
                    with tempfile.TemporaryDirectory() as d:
                        try:
                            from pico8.lua import lua as _lua
                            for b_ in batch:
                                _lua.Lua.from_lines([b_], version=ambient.VERSION[0])
                            check_listtokens(ctx, list(batch), d)
                            check_listtokens(ctx, batch[:1], d)
                        except Exception as e:
                            ctx.violation('listtokens route raised %r' % (e,), {'src': src, 'tag': 'listtokens'})
                    del batch[:]
            if i == 0:
                ctx.sample({'program_source': src[:200]})
    ctx.extra.pop('_lt_batch', None)
    for k in ('keywords', 'symbols'):
        if k in ctx.extra:
            ctx.extra[k] = sorted(ctx.extra[k])


def replay(case, ctx):
    if case.get('tag') == 'count':
        run_shard({'kind': 'strings'}, ctx)
        return
    check_source(ctx, case['src'], case.get('tag', 'replay'))


def gates(m, tier):
    f, mon = m['features'], m['monitors']
    missed = []
    kws, syms = set(), set()
    for ex in m['extra']:
        kws.update(ex.get('keywords', []))
        syms.update(ex.get('symbols', []))
    if len(kws) < 22:
        missed.append('only %d of 22 keywords observed' % len(kws))
    if len(syms) < 46:
        missed.append('only %d of 46 symbols observed' % len(syms))
    for k in ('src:pair', 'src:number', 'src:string', 'src:ident', 'src:program'):
        if f.get(k, 0) < 100:
            missed.append('%s = %d' % (k, f.get(k, 0)))
    for form in progen.NUM_FORMS:
        if f.get('num:' + form, 0) < 3:
            missed.append('number form %s seen %d times in programs' % (form, f.get('num:' + form, 0)))
    if f.get('long_line_sources', 0) < 30 or min(f.get('long_line_over_%dk' % k, 0) for k in (8, 16, 32, 64)) < 2:
        missed.append('long physical lines: %d (over 8k/16k/32k/64k: %s)' % (
            f.get('long_line_sources', 0), [f.get('long_line_over_%dk' % k, 0) for k in (8, 16, 32, 64)]))
    if mon.get('multi_call_runs_compared', 0) < 300:
        missed.append('texts handed to one lexer in several calls: %d' % mon.get('multi_call_runs_compared', 0))
    if mon.get('chunked_runs_compared', 0) < 1000:
        missed.append('chunked runs compared: %d' % mon.get('chunked_runs_compared', 0))
    if mon.get('listtokens_runs', 0) < 10:
        missed.append('listtokens CLI runs: %d' % mon.get('listtokens_runs', 0))
    if mon.get('p8_file_deliveries', 0) < 10 or mon.get('png_file_deliveries', 0) < 10:
        missed.append('file deliveries p8=%d png=%d' % (mon.get('p8_file_deliveries', 0), mon.get('png_file_deliveries', 0)))
    return missed
