"""C05 — code compression is lossless and emits only well-formed `:c:` streams.

Monitors (all on the real pico8.game.compress / p8png functions):
 (a) producer: for text t, header + compress_code(t) is parsed by the validating reference decoder
     (vf.refcodec.c_parse_items): every item must be well formed (literal index 1..59, 00 xx escape,
     reference length 3..17, 1 <= offset <= bytes produced) and the decoded text must equal t;
     picotool's own decompress_code / get_code_from_bytes must return t as well.
 (b) consumer: well-formed streams manufactured by the randomised reference encoder (any earlier
     occurrence, any length 3..17, overlapping allowed) must decode identically in picotool and in
     the reference decoder.
"""
import itertools

from .. import refcodec as rc

LEVEL = 'exploration'
RULE = ('exhaustive: every string of length <= N (quick 9, thorough 11) over the alphabet {a, b (table chars), LF, A (non-table byte)}; '
        'sampled: Lua-like token soup up to 3 kB (thorough 12 kB), repeats at distances 3110..3140 x lengths 15..19, texts ending at every '
        'offset 0..20 into a repeated 17-byte block, texts with _update60 at start/middle/end and lines beginning if(_update60); '
        'randomised-encoder streams over the same texts. Non-trivial: text of >= 3 bytes whose stream contains at least one back-reference '
        '(producer) or any stream with >= 1 reference (consumer); distinct by stream hash')
ASSUMPTIONS = [
    'texts ending in the reserved compatibility suffix are outside the domain (the format reserves the suffix); texts containing NUL are driven through the stream-level functions (the format spells NUL as 00 00) but not through the cart writer, whose raw storage is NUL-terminated',
    'texts are at most 65535 bytes (16-bit length header)',
    'the reference decoder copies back-references byte by byte, as PICO-8 does',
]
EXHAUSTIVE = {'quick': True, 'thorough': True}
TIMEOUT = {'quick': 900, 'thorough': 7200}
KNOWN_KEYS = {'suffix-straddle', 'overlapping-reference', 'nul-at-text-edge'}
ALPHA = b'ab\nA'


def plan(tier, seed):
    N = 9 if tier == 'quick' else 11
    specs = []
    # exhaustive space split by 2-symbol prefix (16 shards) + one shard for lengths < 2
    specs.append({'kind': 'exh', 'prefix': None, 'maxlen': 1})
    for p in itertools.product(range(4), repeat=2):
        specs.append({'kind': 'exh', 'prefix': list(p), 'maxlen': N})
    k = 4 if tier == 'quick' else 16
    for i in range(k):
        specs.append({'kind': 'soup', 'count': 40 if tier == 'quick' else 60, 'maxlen': 3000 if tier == 'quick' else 12000})
    for i in range(k):
        specs.append({'kind': 'window', 'count': 10 if tier == 'quick' else 40, 'index': i})
    specs.append({'kind': 'tail'})
    for d in ((0, 1, 8) if tier == 'quick' else (-2, -1, 0, 1, 2, 3, 4, 5, 6, 7, 8, 9, 10)):
        specs.append({'kind': 'area_edge', 'over': d})
    for i in range(2 if tier == 'quick' else 8):
        specs.append({'kind': 'highbyte', 'count': 400 if tier == 'quick' else 2500})
    specs.append({'kind': 'nul', 'count': 150 if tier == 'quick' else 1500})
    specs.append({'kind': 'fill'})
    for i in range(2 if tier == 'quick' else 8):
        specs.append({'kind': 'update60', 'count': 60 if tier == 'quick' else 250})
    for i in range(k):
        specs.append({'kind': 'consumer', 'count': 400 if tier == 'quick' else 2500})
    specs.append({'kind': 'via_writer', 'count': 60 if tier == 'quick' else 400})
    specs.append({'kind': 'via_writer', 'count': 40 if tier == 'quick' else 300, 'resave': True})
    lens = [32767, 32768, 32769, 40000, 49152, 65535] if tier == 'quick' else [32766, 32767, 32768, 32769, 33000, 36864, 40000, 49151, 49152,
                                                                             57344, 65534, 65535]
    for i, L in enumerate(lens):
        specs.append({'kind': 'long', 'length': L, 'producer': tier == 'thorough' or i % 2 == 1})
    # the same monitors with assertions compiled out (python -O / PYTHONOPTIMIZE=1)
    specs.append({'kind': 'soup', 'count': 30, 'maxlen': 1500, 'pyopt': True})
    specs.append({'kind': 'consumer', 'count': 300, 'pyopt': True})
    specs.append({'kind': 'update60', 'count': 40, 'pyopt': True})
    return specs


def in_domain(t, nul=False):
    """nul=True: the stream-level clauses (compress_code / decompress_code / manufactured streams), where the format has an explicit
    spelling for a NUL character (00 00); the cart writer's raw storage cannot carry one and is not driven with such texts."""
    return ((nul or b'\x00' not in t) and len(t) <= 65535 and
            not rc.strip_future(t) != t)


def _area(length, stream):
    body = rc.C_HEADER + bytes((length >> 8, length & 255, 0, 0)) + bytes(stream)
    return body + bytes(max(0, rc.CODE_SIZE - len(body)))


def classify_producer(t, got):
    """Mechanism for a producer-side mismatch: surplus output that is a prefix of the compat suffix; NUL characters lost at the
    edges of the text."""
    if isinstance(got, bytes) and got != t and got == t.strip(b'\x00'):
        return 'nul-at-text-edge'
    if isinstance(got, bytes) and got.startswith(t):
        extra = got[len(t):]
        for suf in (b'\n' + rc.FUTURE2, rc.FUTURE2, rc.FUTURE1):
            if extra and (suf.startswith(extra) or (b'\n' + suf).startswith(extra)):
                return 'suffix-straddle'
        if extra and b'_update60' in t:
            # surplus made of suffix characters in a text that triggers the suffix
            allsuf = b'\n' + rc.FUTURE2
            if any(allsuf[i:i + len(extra)] == extra for i in range(len(allsuf))):
                return 'suffix-straddle'
    return None


def check_producer(ctx, t, tag, compress, p8png):
    """Monitor (a) on one text."""
    case = {'kind': 'producer', 'text': t, 'tag': tag}
    try:
        stream = bytes(compress.compress_code(t))
    except Exception as e:
        ctx.case(t)
        ctx.violation('compress_code raised %r' % (e,), case)
        return
    area = _area(len(t), stream)
    # whole stream well formed?  (parse it completely, whatever the header says)
    full = _area(65535, stream)
    n, items, out, problems, used = rc.c_parse_items(full, limit=8 + len(stream))
    ctx.monitor('streams_validated')
    ctx.monitor('items_validated', len(items))
    nref = sum(1 for it in items if it[0] == 'ref')
    ctx.case(stream, nontrivial=(len(t) >= 3 and nref > 0))
    for it in items:
        if it[0] == 'ref':
            ctx.monitor('references_validated')
            if it[2] == 17:
                ctx.feature('ref_len_17')
            if it[1] >= 3100:
                ctx.feature('ref_offset_ge_3100')
            if it[1] in (3119, 3120):
                ctx.feature('ref_offset_window_edge')
    if problems:
        ctx.violation('stream for %r is malformed: %s' % (t[:60], problems), case)
        return
    if used != 8 + len(stream):
        ctx.violation('stream for %r: parser consumed %d of %d bytes' % (t[:60], used - 8, len(stream)), case)
        return
    if not out.startswith(t):
        ctx.violation('stream for %r decodes (reference) to %r' % (t[:60], out[:80]), case)
        return
    ref_text, rp = rc.c_decode(area)
    if ref_text != t or rp:
        ctx.violation('reference decode of header+stream gives %r problems=%s' % (ref_text[:80], rp), case)
        return
    # picotool's own decoder on the area it would have written
    try:
        n2, got, csize = compress.decompress_code(bytearray(area))
    except Exception as e:
        ctx.violation('decompress_code raised %r on its own stream for %r' % (e, t[:60]), case,
                      key=None)
        return
    ctx.monitor('own_decodes_compared')
    if got != t:
        d = next((i for i in range(min(len(got), len(t))) if got[i] != t[i]), min(len(got), len(t)))
        ctx.violation('decompress_code(header+compress_code(t)) != t: len %d vs %d, first difference at %d, tail %r' % (
            len(got), len(t), d, got[max(0, len(t) - 10):len(t) + 40]), case, key=classify_producer(t, got))
        return
    # the writer's own packaging, when it chooses the compressed form
    if len(stream) < len(t) and b'\r' not in t and b'\x00' not in t:
        try:
            # the writer's packaging takes an optional version (None: unknown, any non-zero version: compressed when smaller); the
            # reader is given the same value
            ver = (8, None, 33, 1, None, 255)[ctx.monitors.get('writer_packaging_compared', 0) % 6]
            ctx.feature('packaging_version:%s' % ver)
            a2 = p8png.get_bytes_from_code(t) if ver == 8 else p8png.get_bytes_from_code(t, ver)
            n3, got3, cs3 = p8png.get_code_from_bytes(a2, ver)
        except Exception as e:
            ctx.violation('get_bytes_from_code/get_code_from_bytes raised %r' % (e,), case)
            return
        ctx.monitor('writer_packaging_compared')
        if bytes(a2[:8 + len(stream)]) != area[:8 + len(stream)] or any(a2[8 + len(stream):]):
            ctx.violation('get_bytes_from_code does not lay out header+stream+zero padding', case)
        elif got3 != t:
            ctx.violation('get_code_from_bytes(get_bytes_from_code(t)) != t', case, key=classify_producer(t, got3))


def check_consumer(ctx, t, items, compress, tag, header_len=None):
    """Monitor (b) on one manufactured stream."""
    stream = rc.c_encode_items(items)
    L = len(t) if header_len is None else header_len
    area = _area(L, stream)
    case = {'kind': 'consumer', 'text': t, 'items': [list(i) for i in items], 'header_len': L, 'tag': tag}
    nref = sum(1 for it in items if it[0] == 'ref')
    overlap = any(it[0] == 'ref' and it[1] < it[2] for it in items)
    ctx.case(stream, nontrivial=nref > 0)
    if overlap:
        ctx.feature('stream_with_overlapping_reference')
    if any(it[0] == 'ref' and it[2] == 17 for it in items):
        ctx.feature('consumer_ref_len_17')
    if any(it[0] == 'esc' for it in items):
        ctx.feature('consumer_escape')
    want, problems = rc.c_decode(area)
    if problems:
        ctx.inconclusive_because('reference encoder produced a malformed stream: %s' % problems)
        return
    if len(stream) + 8 <= rc.CODE_SIZE and ctx.monitors.get('foreign_streams_compared', 0) % 3 == 0:
        # the same stream in a buffer that ends where the stream ends (or one / two bytes later): nothing may depend on padding
        for pad in (0, 1, 2):
            short = bytearray(area[:8 + len(stream) + pad])
            try:
                n3, got3, cs3 = compress.decompress_code(short)
            except Exception as e:
                ctx.violation('decompress_code raised %r on a well-formed stream in a buffer with %d bytes after it' % (e, pad), case)
                return
            ctx.monitor('unpadded_buffers_compared')
            if got3 != want:
                ctx.violation('picotool decodes a well-formed stream differently when the buffer ends %d bytes after it' % pad, case)
                return
    try:
        n2, got, cs = compress.decompress_code(bytearray(area))
    except Exception as e:
        ctx.violation('decompress_code raised %r on a well-formed stream' % (e,), case,
                      key='overlapping-reference' if overlap else None)
        return
    ctx.monitor('foreign_streams_compared')
    if got != want:
        d = next((i for i in range(min(len(got), len(want))) if got[i] != want[i]), min(len(got), len(want)))
        key = None
        if overlap:
            # attribute to the overlap only if the first difference lies inside an overlapping reference
            pos = 0
            for it in items:
                ln = 1 if it[0] != 'ref' else it[2]
                if it[0] == 'ref' and it[1] < it[2] and pos <= d < pos + ln:
                    key = 'overlapping-reference'
                pos += ln
        ctx.violation('picotool decodes a well-formed stream to %r..., reference to %r... (first difference at %d of %d)' % (
            got[max(0, d - 5):d + 20], want[max(0, d - 5):d + 20], d, len(want)), case, key=key)


WORDS = [b'function', b'local', b'if', b'then', b'else', b'end', b'for', b'while', b'do', b'return', b'and', b'or', b'not',
         b'nil', b'true', b'false', b'print', b'spr', b'btn', b'_init', b'_update', b'_draw', b'x', b'y', b'i', b'player',
         b'enemies', b'add', b'del', b'flr', b'rnd', b'0', b'1', b'12', b'0x1f', b'3.5', b'=', b'==', b'+', b'-', b'*', b'/',
         b'(', b')', b'{', b'}', b'[', b']', b',', b'.', b'..', b':', b'"hello"', b"'x'", b'--note', b'T', b'UPPER', b'\x8e', b'\x97']


def soup(rng, n):
    out = bytearray()
    indent = 0
    while len(out) < n:
        r = rng.random()
        if r < 0.15:
            out += b'\n' + b' ' * indent
            if rng.random() < 0.2:
                indent = max(0, indent + rng.choice((-1, 1)))
        elif r < 0.2 and len(out) > 20:
            # repeat an earlier stretch verbatim (long matches)
            s = rng.randrange(len(out) - 10)
            out += out[s:s + rng.randint(3, 60)]
        else:
            out += rng.choice(WORDS)
            if rng.random() < 0.6:
                out += b' '
    return bytes(out[:n])


def unique_filler(rng, n):
    """n bytes without any 3-byte repeat (approximately): upper-case letters and digits in de Bruijn-ish walk."""
    alpha = b'BCDEFGHIJKLMNOPQRSTUVWXYZ'
    out = bytearray()
    i = rng.randrange(10 ** 6)
    while len(out) < n:
        out += b'%d' % i + bytes([alpha[i % 25]])
        i += 1
    return bytes(out[:n])


def run_shard(spec, ctx):
    from pico8.game import compress
    from pico8.game.formatter import p8png
    rng = ctx.rng
    kind = spec['kind']
    if spec.get('pyopt'):
        import sys
        if not sys.flags.optimize:
            ctx.inconclusive_because('pyopt shard is not running with assertions disabled')
            return
        ctx.feature('optimized_interpreter_shards')
    if kind == 'exh':
        if spec['prefix'] is None:
            for L in range(0, spec['maxlen'] + 1):
                for tup in itertools.product(ALPHA, repeat=L):
                    check_producer(ctx, bytes(tup), 'exh', compress, p8png)
            ctx.feature('exh_short_done')
        else:
            pre = bytes(ALPHA[i] for i in spec['prefix'])
            for L in range(0, spec['maxlen'] - 1):
                for tup in itertools.product(ALPHA, repeat=L):
                    check_producer(ctx, pre + bytes(tup), 'exh', compress, p8png)
            ctx.feature('exh_prefix_done')
            ctx.extra['exh_maxlen'] = spec['maxlen']
        ctx.sample({'text': b'ab\nAabab', 'note': 'member of the exhaustive set'})
    elif kind == 'soup':
        for i in range(spec['count']):
            n = rng.choice((10, 50, 200, rng.randint(3, spec['maxlen'])))
            t = soup(rng, n)
            if not in_domain(t):
                continue
            ctx.feature('soup')
            check_producer(ctx, t, 'soup', compress, p8png)
            if i == 0:
                ctx.sample({'soup_prefix': t[:80]})
    elif kind == 'window':
        # every distance around both conceivable window edges (16 x 195 = 3120, 16 x 196 = 3136) with the longest block first, then the
        # other lengths
        grid = [(d, 17) for d in range(3110, 3142)] + [(d, l) for d in range(3112, 3142) for l in (15, 16, 18, 19)]
        for i in range(spec['count']):
            # the shards walk a fixed (distance, length) grid around the window edge; random pairs beyond it
            idx = spec.get('index', 0) * spec['count'] + i
            dist, ln = grid[idx] if idx < len(grid) else (rng.randint(3100, 3150), rng.randint(3, 19))
            block = bytes(rng.choice(b'abcdefghijklmnopqrstuvwxyz') for _ in range(ln))
            t = block + unique_filler(rng, dist - ln) + block + b'\n'
            ctx.feature('window_dist_%s' % ('le3120' if dist <= 3120 else 'gt3120'))
            ctx.feature('window_cases')
            check_producer(ctx, t, 'window', compress, p8png)
    elif kind == 'nul':
        # texts with NUL characters (spelled 00 00 in a stream): at the start, inside, at the end, in runs; every text of length <= 6
        # over {a, NUL, A, LF}; manufactured streams over the same texts
        alpha = b'a\x00A\n'
        for L in range(1, 7):
            for tup in itertools.product(alpha, repeat=L):
                t = bytes(tup)
                if b'\x00' in t and in_domain(t, nul=True):
                    ctx.feature('nul_texts')
                    check_producer(ctx, t, 'nul-exh', compress, p8png)
        for i in range(spec['count']):
            body = bytearray(soup(rng, rng.randint(3, 400)))
            for _ in range(rng.randint(1, 6)):
                pos = rng.choice((0, len(body), rng.randrange(len(body) + 1)))
                body[pos:pos] = b'\x00' * rng.choice((1, 1, 2, 5))
            t = bytes(body)
            if not in_domain(t, nul=True):
                continue
            ctx.feature('nul_texts')
            ctx.feature('nul_at_start' if t[:1] == b'\x00' else 'nul_at_end' if t[-1:] == b'\x00' else 'nul_inside')
            check_producer(ctx, t, 'nul', compress, p8png)
            check_consumer(ctx, t, rc.c_random_items(t, rng, p_ref=rng.choice((0.3, 0.9))), compress, 'nul-random-encoder')
        ctx.sample({'nul_text': b'x="\x00ab\x00"'})
    elif kind == 'fill':
        # streams that fill the code area to its last byte, ending in each kind of item
        room = rc.CODE_SIZE - 8
        for last in ('esc', 'ref', 'lit'):
            for slack in (0, 1, 2):
                # escapes cost two bytes each: a text of non-table characters fills the area exactly; the tail is shaped per case
                n_esc = (room - slack) // 2 - 4
                text = bytearray(rng.choice(b'ABCDEFGHIJKLMNOPQRSTUVWXYZ') for _ in range(n_esc))
                items = [('esc', c) for c in text]
                used = 2 * n_esc
                while room - slack - used >= 4:
                    items.append(('lit', rc.C_INDEX[ord('a')]))
                    text.append(ord('a'))
                    used += 1
                if last == 'ref':
                    items.append(('ref', 5, 3))
                    text += text[-5:-2]
                    used += 2
                elif last == 'esc':
                    items.append(('esc', ord('Q')))
                    text.append(ord('Q'))
                    used += 2
                else:
                    items.append(('lit', rc.C_INDEX[ord('z')]))
                    text.append(ord('z'))
                    used += 1
                while used < room - slack:
                    items.insert(0, ('lit', rc.C_INDEX[ord('b')]))
                    text.insert(0, ord('b'))
                    used += 1
                t = bytes(text)
                if len(rc.c_encode_items(items)) != room - slack:
                    ctx.inconclusive_because('fill generator: stream has %d bytes, wanted %d' % (len(rc.c_encode_items(items)), room - slack))
                    return
                ctx.feature('stream_fills_code_area' if slack == 0 else 'stream_ends_%d_before_area_end' % slack)
                check_consumer(ctx, t, items, compress, 'fill-' + last)
        ctx.sample({'fill': 'streams of exactly 0x3d00-8 bytes (and 1, 2 less) ending in an escape, a back-reference, a literal'})
    elif kind == 'area_edge':
        # the writer's packaging at the edge of the code area: a text whose stream ends `over` bytes past (or before) the area's last
        # byte is either packed whole (area of exactly 0x3d00 bytes that decodes to the text, also when read back from a cart image by
        # picotool's reader) or refused
        import io
        import random
        from .. import carts
        from pico8.game.formatter.p8png import P8PNGFormatter
        d = spec['over']
        t = carts.edge_text(random.Random(d * 31 + 7), rc.CODE_SIZE - 8 + d)
        case = {'kind': 'area_edge', 'over': d, 'text': t}
        ctx.case(t, nontrivial=True)
        if rc.c_size(rc.c_greedy(t)) != rc.CODE_SIZE - 8 + d:
            ctx.inconclusive_because('edge text generator: greedy stream has %d bytes, wanted %d' % (rc.c_size(rc.c_greedy(t)), rc.CODE_SIZE - 8 + d))
            return
        try:
            area = p8png.get_bytes_from_code(t, 8)
        except p8png.InvalidP8PNGError:
            ctx.feature('edge_text_refused')
            ctx.monitor('edge_refusals')
            return
        except Exception as e:
            ctx.violation('get_bytes_from_code raised %r for a text whose stream ends %+d bytes from the end of the code area' % (e, d), case)
            return
        ctx.feature('edge_text_packed')
        ctx.monitor('edge_areas_checked')
        if len(area) != rc.CODE_SIZE:
            ctx.violation('get_bytes_from_code returned a code area of %d bytes (the area has %d) for a stream ending %+d bytes from its end' % (
                len(area), rc.CODE_SIZE, d), case)
            return
        got = rc.decode_code_area(bytes(area), 8)
        if got != t:
            ctx.violation('code area packed for a stream ending %+d bytes from the end of the area decodes (reference) to %d bytes, the text has %d' % (
                d, len(got), len(t)), case)
            return
        if bytes(area[-1:]) != b'\x00':
            ctx.feature('edge_area_used_to_its_last_byte')
        regions, _ = carts.random_regions(rng, ('zero', 'uniform', 'sparse', 'uniform')[ctx.evaluations % 4])   # (the other sections of the cart are not the code's business)
        try:
            g = P8PNGFormatter.from_file(io.BytesIO(rc.write_p8png(regions, bytes(area), 8)))
            back = b''.join(g.lua.to_lines())
        except Exception as e:
            ctx.violation('reading a cart whose code area is used up to %+d bytes from its end raised %r' % (d, e), case)
            return
        ctx.monitor('edge_carts_read_back')
        # ... and the same text through the cart writer: every byte of the code area and the version byte behind it reach the picture
        try:
            buf = io.BytesIO()
            P8PNGFormatter.to_file(carts.make_game(regions, code=t, version=8), buf)
            ref = rc.read_p8png(buf.getvalue())
        except Exception as e:
            ctx.violation('the cart writer raised %r for a text that get_bytes_from_code packs (stream ends %+d bytes from the end of the area)' % (e, d), case)
            return
        ctx.monitor('edge_carts_written')
        if bytes(ref['code_area']) != bytes(area) or ref['version'] != 8:
            k = next((i for i in range(rc.CODE_SIZE) if ref['code_area'][i] != area[i]), -1)
            ctx.violation('the picture written for a cart whose stream ends %+d bytes from the end of the code area does not hold the packed '
                          'area (first difference at area offset %d; version byte %d, cart has 8)' % (d, k, ref['version']), case)
            return
        if back not in (t, t + b'\n'):
            ctx.violation('a cart whose code area is used up to %+d bytes from its end reads back as %d bytes of code, the text has %d' % (
                d, len(back), len(t)), case)
        ctx.sample({'area_edge': 'comment of %d characters whose greedy stream has %d bytes' % (len(t), rc.CODE_SIZE - 8 + d)})
    elif kind == 'highbyte':
        # texts over small alphabets of 8-bit characters whose codes differ in one bit (bit 0, bit 7) or sit next to each other: whatever
        # a match finder keys its search on, different characters must stay different
        for i in range(spec['count']):
            base = rng.randrange(256)
            alpha = {base, base ^ 1, base ^ 0x80, base ^ 0x81, (base + 1) & 255, rng.randrange(256), rng.choice(b',-.ab\n ')}
            alpha = bytes(sorted(a for a in alpha if a != 0))
            if i % 4 == 3:
                alpha = bytes(range(1, 256))
            n = rng.choice((6, 12, 40, 200, rng.randint(3, 1500)))
            t = bytes(rng.choice(alpha) for _ in range(n))
            if not in_domain(t):
                continue
            ctx.feature('highbyte_texts')
            if any(c >= 128 for c in t):
                ctx.feature('texts_with_characters_above_127')
            check_producer(ctx, t, 'highbyte', compress, p8png)
            if i == 0:
                ctx.sample({'highbyte_text': t[:40]})
    elif kind == 'tail':
        block = b'abcdefghijklmnopq'  # 17 bytes
        for k in range(0, 21):
            for pre in (b'', b'X', b'XY\n'):
                t = pre + block + b'#' + (block + block)[:k]
                ctx.feature('tail_offset_%d' % k)
                check_producer(ctx, t, 'tail', compress, p8png)
    elif kind == 'update60':
        shim_texts = []
        for shim in (rc.FUTURE1, rc.FUTURE2):
            for pre in (b'x=1\n', b'', b'function _update60() end\n'):
                for post in (b'\n', b' ', b'\n\n', b'x', b'\n-- end', b'\t'):
                    shim_texts.append(pre + shim + post)
        for t in shim_texts:
            # the compatibility shim as ordinary text of the program, followed by something: it is part of the text
            if in_domain(t):
                ctx.feature('shim_followed_by_text')
                check_producer(ctx, t, 'shim-trailer', compress, p8png)
        for t in (b'_update60=1\nx=2\n', b'function _update60() end\nx=1\n', b'x=1\n_update60()', b'x=1\nfoo(_update60)\n',
                  b'x=1\nif(_update60) y=1\nz=2\n', b'if(_update60) y=1\n', b'zzz\nif(_update60) y=1\n', b'a=1\nb=_update60'):
            ctx.feature('update60_cases')
            if t.startswith(b'_update60') or t.startswith(b'function _update60'):
                ctx.feature('update60_at_start')
            if t.rstrip().endswith(b'_update60') or t.rstrip().endswith(b'_update60()'):
                ctx.feature('update60_at_end')
            if b'\nif(_update60)' in t or t.startswith(b'if(_update60)'):
                ctx.feature('line_begins_if_update60')
            check_producer(ctx, t, 'update60-fixed', compress, p8png)
        suffix_bits = [b'if(_update60)', b'if(_update60)_update=function()', b'_update60()', b'_update60()_update60()end',
                       b'_update_buttons()', b'\nif(_update60)', b'_update=function()', b'end']
        for i in range(spec['count']):
            parts = []
            for _ in range(rng.randint(1, 6)):
                r = rng.random()
                if r < 0.45:
                    parts.append(rng.choice(suffix_bits))
                elif r < 0.6:
                    parts.append(b'_update60')
                else:
                    parts.append(soup(rng, rng.randint(1, 30)))
                if rng.random() < 0.5:
                    parts.append(rng.choice((b'\n', b' ', b' y=1\n', b'zzz\n')))
            t = b''.join(parts)
            if b'_update60' not in t:
                t = rng.choice((b'_update60', b'function _update60() end\n')) + t
            if not in_domain(t):
                ctx.feature('update60_out_of_domain')
                continue
            ctx.feature('update60_cases')
            if t.startswith(b'_update60') or t.startswith(b'function _update60'):
                ctx.feature('update60_at_start')
            if t.rstrip().endswith(b'_update60') or t.rstrip().endswith(b'_update60()'):
                ctx.feature('update60_at_end')
            if b'\nif(_update60)' in t or t.startswith(b'if(_update60)'):
                ctx.feature('line_begins_if_update60')
            check_producer(ctx, t, 'update60', compress, p8png)
            if i == 0:
                ctx.sample({'update60_text': t[:100]})
    elif kind == 'long':
        # texts whose 16-bit length header has its top bit set (32768..65535 characters): repetitive enough to fit the code area
        L = spec['length']
        unit = b'data_%d={%s}\n' % (rng.randrange(10), b','.join(b'%d' % rng.randrange(7) for _ in range(rng.randint(10, 30))))
        t = (unit * (L // len(unit) + 1))[:L - 1] + b'\n'
        assert len(t) == L and in_domain(t)
        ctx.feature('long_text_cases')
        if L >= 32768:
            ctx.feature('header_length_top_bit_set')
        for variant in ('greedy', 'random'):
            items = rc.c_greedy(t) if variant == 'greedy' else rc.c_random_items(t, rng, p_ref=0.97)
            if 8 + len(rc.c_encode_items(items)) > rc.CODE_SIZE:
                ctx.feature('long_stream_does_not_fit')
                continue
            check_consumer(ctx, t, items, compress, 'long-' + variant)
            ctx.monitor('long_streams_compared')
        if spec.get('producer'):
            check_producer(ctx, t, 'long', compress, p8png)
            ctx.monitor('long_texts_compressed')
        ctx.sample({'long_text_length': L, 'unit': unit})
    elif kind == 'via_writer':
        # the compressed code area as the cart writer produces it (P8PNGFormatter.to_file), read back from the PNG by the
        # reference readers
        import io
        from .. import carts
        from pico8.game.formatter.p8png import P8PNGFormatter
        for i in range(spec['count']):
            t = carts.simple_lua(rng, rng.choice((200, 700, 2000)), update60=rng.choice((None, 'start', 'middle', 'end')))
            if rng.random() < 0.4:
                t = t.rstrip(b'\n')
            if not in_domain(t):
                continue
            regions, _ = carts.random_regions(rng, ('zero', 'uniform', 'sparse', 'uniform')[ctx.evaluations % 4])   # (the other sections of the cart are not the code's business)
            case = {'kind': 'producer', 'text': t, 'tag': 'via_writer'}
            ctx.case(t + b'#writer' + (b'#resave' if spec.get('resave') else b''))
            try:
                buf = io.BytesIO()
                g = carts.make_game(regions, code=t, version=8)
                if spec.get('resave'):
                    # HISTORY: the Game object was saved (or measured) before; its Lua object is then changed in place and the cart
                    # is saved again.  The code area has to hold the code the cart has now.
                    how = ('saved_before', 'measured_before', 'both')[i % 3]
                    if how != 'measured_before':
                        P8PNGFormatter.to_file(g, io.BytesIO())
                    if how != 'saved_before':
                        g.get_compressed_size()
                    more = carts.simple_lua(rng, rng.choice((60, 400, 1500)))
                    change = 'update_from_lines' if i % 5 else 'reparse'
                    if change == 'reparse':
                        g.lua.reparse()
                    else:
                        g.lua.update_from_lines([more])
                    t = b''.join(g.lua.to_lines())
                    case = {'kind': 'producer', 'text': t, 'tag': 'via_writer', 'history': '%s, then Lua.%s in place, then saved' % (how, change)}
                    ctx.feature('resaved_after_in_place_%s' % change)
                    if not in_domain(t):
                        continue
                P8PNGFormatter.to_file(g, buf)
                area = rc.read_p8png(buf.getvalue())['code_area']
            except Exception as e:
                ctx.violation('cart writer raised %r' % (e,), case)
                continue
            if bytes(area[:4]) != rc.C_HEADER:
                ctx.feature('writer_stored_raw')
                raw = bytes(area).split(b'\x00', 1)[0]
                if spec.get('resave') and raw != t:
                    ctx.violation('code area written raw by the cart writer holds %d bytes, the code has %d' % (len(raw), len(t)), case)
                continue
            ctx.monitor('writer_areas_decoded')
            got, problems = rc.c_decode(area)
            if problems or got != t:
                ctx.violation('code area written by the cart writer decodes (reference) to %d bytes, the code has %d (problems %s, tail %r)' % (
                    len(got), len(t), problems, got[-30:]), case)
        ctx.sample({'via_writer': 'simple_lua text with _update60 written by P8PNGFormatter.to_file'})
    elif kind == 'consumer':
        for i in range(spec['count']):
            r = rng.random()
            if r < 0.3:
                t = bytes(rng.choice(ALPHA) for _ in range(rng.randint(1, 40)))
            elif r < 0.5:
                t = bytes(rng.choice(b'ab') for _ in range(rng.randint(3, 120)))
            elif r < 0.9:
                t = soup(rng, rng.randint(3, 600))
            else:
                t = soup(rng, rng.randint(3000, 5000))
            if not in_domain(t) or not t:
                continue
            items = rc.c_random_items(t, rng, p_ref=rng.choice((0.3, 0.7, 0.95)),
                                      allow_overlap=rng.random() < 0.8)
            check_consumer(ctx, t, items, compress, 'random-encoder')
            if rng.random() < 0.1:
                # a stream whose header counts the compatibility suffix, as PICO-8 itself writes it
                t2 = t + (b'' if t[-1:] in b' \n' else b'\n') + rng.choice((rc.FUTURE1, rc.FUTURE2))
                items2 = rc.c_random_items(t2, rng)
                ctx.feature('consumer_with_counted_suffix')
                check_consumer(ctx, t2, items2, compress, 'suffix-counted')
            if i == 0:
                ctx.sample({'consumer_text': t[:40], 'items_prefix': [list(x) for x in items[:6]]})


def replay(case, ctx):
    from pico8.game import compress
    from pico8.game.formatter import p8png
    if case['kind'] == 'area_edge':
        run_shard({'kind': 'area_edge', 'over': case['over']}, ctx)
        return
    if case['kind'] == 'producer':
        check_producer(ctx, case['text'], 'replay', compress, p8png)
    else:
        check_consumer(ctx, case['text'], [tuple(i) for i in case['items']], compress, 'replay', case['header_len'])


def gates(m, tier):
    f, mon = m['features'], m['monitors']
    missed = []
    if f.get('exh_short_done', 0) != 1 or f.get('exh_prefix_done', 0) != 16:
        missed.append('exhaustive set incomplete')
    if f.get('ref_offset_window_edge', 0) < 1:
        missed.append('no reference with offset 3119/3120 seen')
    if f.get('ref_len_17', 0) < 1:
        missed.append('no reference of length 17 seen')
    if f.get('stream_with_overlapping_reference', 0) < 100:
        missed.append('fewer than 100 streams with overlapping references (%d)' % f.get('stream_with_overlapping_reference', 0))
    for k in ('update60_at_start', 'update60_at_end', 'line_begins_if_update60', 'consumer_with_counted_suffix', 'consumer_escape'):
        if f.get(k, 0) < 3:
            missed.append('%s seen %d times' % (k, f.get(k, 0)))
    for k in range(21):
        if f.get('tail_offset_%d' % k, 0) < 1:
            missed.append('tail offset %d missing' % k)
    if f.get('stream_fills_code_area', 0) < 3 or mon.get('unpadded_buffers_compared', 0) < 300:
        missed.append('streams filling the code area: %d; unpadded buffers compared: %d' % (f.get('stream_fills_code_area', 0), mon.get('unpadded_buffers_compared', 0)))
    if f.get('nul_texts', 0) < 1000 or min(f.get('nul_at_start', 0), f.get('nul_at_end', 0), f.get('nul_inside', 0)) < 5 or f.get('shim_followed_by_text', 0) < 20:
        missed.append('texts with NUL characters: %d (start %d, end %d, inside %d); shim followed by text: %d' % (
            f.get('nul_texts', 0), f.get('nul_at_start', 0), f.get('nul_at_end', 0), f.get('nul_inside', 0), f.get('shim_followed_by_text', 0)))
    if mon.get('own_decodes_compared', 0) < 1000 or mon.get('foreign_streams_compared', 0) < 500:
        missed.append('monitors saw too few events')
    if mon.get('writer_areas_decoded', 0) < 30:
        missed.append('code areas written by the cart writer decoded: %d' % mon.get('writer_areas_decoded', 0))
    if f.get('header_length_top_bit_set', 0) < 4 or mon.get('long_streams_compared', 0) < 6 or mon.get('long_texts_compressed', 0) < 2:
        missed.append('texts of 32768..65535 characters: %d (streams compared %d, compressed by picotool %d)' % (
            f.get('header_length_top_bit_set', 0), mon.get('long_streams_compared', 0), mon.get('long_texts_compressed', 0)))
    if f.get('resaved_after_in_place_update_from_lines', 0) < 10 or f.get('resaved_after_in_place_reparse', 0) < 3:
        missed.append('re-save histories: update_from_lines %d, reparse %d' % (f.get('resaved_after_in_place_update_from_lines', 0),
                                                                            f.get('resaved_after_in_place_reparse', 0)))
    if f.get('optimized_interpreter_shards', 0) < 3:
        missed.append('shards under python -O: %d' % f.get('optimized_interpreter_shards', 0))
    if f.get('edge_text_packed', 0) < 1 or f.get('edge_text_refused', 0) < 1 or f.get('edge_area_used_to_its_last_byte', 0) < 1 or mon.get('edge_carts_read_back', 0) < 1:
        missed.append('texts at the edge of the code area: packed %d (area used to its last byte %d, read back from a cart %d), refused %d' % (
            f.get('edge_text_packed', 0), f.get('edge_area_used_to_its_last_byte', 0), mon.get('edge_carts_read_back', 0), f.get('edge_text_refused', 0)))
    if f.get('texts_with_characters_above_127', 0) < 300:
        missed.append('texts with characters above 127: %d' % f.get('texts_with_characters_above_127', 0))
    if mon.get('writer_packaging_compared', 0) < 50:
        missed.append('writer packaging path compared %d times' % mon.get('writer_packaging_compared', 0))
    return missed
