"""C19 — luamin keeps the title and author comments that PICO-8 reads.

Monitor: for generated programs with every header shape, the output of the real LuaMinifyTokenWriter must begin with the
first two comments that precede any code (found by the reference lexer), verbatim, in order, each followed by a line
break; the title/byline derived from the output (reference rule: text after the two comment characters, stripped; and
picotool's own get_title/get_byline on the re-parsed output) equal those of the two comments; no other comment survives;
and the significant tokens are unchanged (vf.minify.align, C01's oracle), so no comment became code or vice versa.
"""
import os

from .. import progen, layout, reflex, minify
from .. import ambient

LEVEL = 'exploration'
RULE = ('header shapes: 0, 1, 2, 3, 4 leading comments x kinds {--, //, --[[ ]], --[=[ ]=], multi-line block} x blank lines / spaces / tabs before '
        'and between them x {code on the next line, code on the same line after a block comment, no code at all, no final newline} x LF/CRLF, over '
        'generated program bodies in random layouts (which add further comments that must disappear); configurations default / keep-all. '
        'Non-trivial: at least one leading comment and one code token; distinct by source hash')
ASSUMPTIONS = [
    '"precede any code" = before the first significant token under the reference lexer',
    'title/byline rule: the comment text after its first two characters, stripped (what get_title/get_byline document)',
]
EXHAUSTIVE = {'quick': False, 'thorough': False}
PYOPT_KINDS = (None,)
CLOCALE_KINDS = (None,)
KINDS = ('dash', 'slash', 'block', 'block1', 'mblock')


def plan(tier, seed):
    n = 12 if tier == 'quick' else 48
    specs = [{'count': 140 if tier == 'quick' else 800} for _ in range(n)]
    specs.append({'kind': 'limit', 'margins': [0, 1, 7] if tier == 'quick' else [0, 1, 2, 7, 19, 40]})
    specs.append({'kind': 'limit', 'margins': ['hdr-1', 'hdr', 'hdr+1'] if tier == 'quick' else ['hdr-2', 'hdr-1', 'hdr', 'hdr+1', 'hdr+30']})
    return specs


DIRECTIVE_LIKE = (b'keep', b'keep', b'keep rolling', b'preserve', b'include', b'luamin', b'minify', b'nolint', b'todo', b'TODO', b'global', b'export',
                  b'no-minify', b'@keep', b'!keep', b'#include', b'skip', b'ignore', b'title', b'by', b'author', b'version', b'end', b'pragma')


def make_comment(rng, kind):
    txt = bytearray(layout.comment_text(rng).replace(b']', b')'))
    if rng.random() < 0.3:
        # tabs and the glyphs below 0x20 are comment text like any other (a tab after the dashes, columns aligned with tabs)
        for _ in range(rng.randint(1, 3)):
            pos = rng.randrange(len(txt) + 1)
            txt[pos:pos] = rng.choice((b'\t', b'\t', b'\t\t', bytes([rng.choice(range(14, 32))]), b'\x7f', b' \t ', b'\x0b', b'\x0c', b'  ', b'   '))
        if txt[:1] == b'[':
            txt[0:0] = b' '
    if rng.random() < 0.12:
        # titles and bylines that begin with a word tools like to give a meaning to; to luamin they are comment text like any other
        txt[0:0] = rng.choice((b'', b' ', b'  ')) + rng.choice(DIRECTIVE_LIKE) + rng.choice((b' ', b': ', b'', b' '))
    txt = bytes(txt)
    if kind == 'dash':
        return b'--' + txt
    if kind == 'slash':
        return b'//' + txt
    if kind == 'block':
        return b'--[[' + txt + b']]'
    if kind == 'block1':
        return b'--[=[' + txt + b']=]'
    return b'--[[' + txt[:len(txt) // 2] + b'\n' + txt[len(txt) // 2:] + b'\n]]'


def make_header(rng, ncomments, nl):
    """-> (header bytes, kinds, code_on_same_line_possible)"""
    parts = []
    kinds = []
    if rng.random() < 0.3:
        parts.append(rng.choice((nl, b' ', b'\t', nl + nl, b'  ' + nl)))
    for k in range(ncomments):
        kind = rng.choice(KINDS)
        com = make_comment(rng, kind)
        if k and rng.random() < 0.12:
            # the same comment again (two ruler lines, a repeated glyph line): equal text, another comment
            kind, com = kinds[-1], prev_com
        prev_com = com
        kinds.append(kind)
        parts.append(rng.choice((b'', b'', b' ', b'\t')) + com)
        last = k == ncomments - 1
        if kind in ('dash', 'slash'):
            parts.append(nl)
        elif last and rng.random() < 0.4:
            parts.append(rng.choice((b' ', b'')))     # code follows on the same line
            kinds.append('same-line-code')
            break
        elif rng.random() < 0.8:
            parts.append(nl)
        else:
            parts.append(b' ')                        # next comment on the same line
        if rng.random() < 0.25:
            parts.append(rng.choice((nl, b' ' + nl, nl + nl)))
    return b''.join(parts), kinds


def title_rule(comment_raw):
    return comment_raw[2:].strip()


def check_one(ctx, src, scopes, config, case):
    from pico8.lua import lua
    rin = reflex.lex(src)
    hdr = minify.header_comments(rin)
    nsig = sum(1 for t in rin if t.sig)
    ctx.case(src, nontrivial=bool(hdr) and nsig > 0)
    ctx.feature('leading_comments_%d' % min(len(hdr), 4))
    for h in hdr[:2]:
        ctx.feature('header_kind:' + ('slash' if h.raw.startswith(b'//') else 'multiline-block' if b'\n' in h.raw else
                                      'block' if h.long else 'dash'))
    if nsig == 0:
        ctx.feature('no_code')
    if not src.endswith(b'\n'):
        ctx.feature('no_final_newline')
    keep_file = None
    if config in ('keep_file', 'cli_keep_file', 'cli'):
        import tempfile
        tmpd = tempfile.mkdtemp(prefix='vf-c19-')
        keep_file = os.path.join(tmpd, 'names.txt')
        minify.write_keep_file(keep_file, [b'keepme', b'x', b'player'], ctx.rng)
    try:
        try:
            if config == 'build_minify':
                # `p8tool build out.p8 --lua main.lua --lua-minify`: the other command that minifies
                import tempfile
                from pico8 import tool
                from .. import refcodec as rc
                tmpb = tempfile.mkdtemp(prefix='vf-c19b-')
                try:
                    main = os.path.join(tmpb, 'main.lua')
                    with open(main, 'wb') as fh:
                        fh.write(src)
                    png = ctx.monitors.get('build_minify_runs', 0) % 3 == 2 and b'\x00' not in src
                    outp = os.path.join(tmpb, ambient.BASE[0] + ('.p8.png' if png else '.p8'))
                    if tool.main([ambient.vflag(), 'build', outp, '--lua', main, '--lua-minify']):
                        raise RuntimeError('p8tool build --lua-minify failed')
                    if png:
                        r = rc.read_p8png(open(outp, 'rb').read())
                        out = rc.strip_future(rc.decode_code_area(r['code_area'], r['version']))
                        ctx.feature('build_minify_png_carts')
                    else:
                        out = rc.read_p8(open(outp, 'rb').read())['code']
                    if not src.endswith(b'\n') and out.endswith(b'\n'):
                        out = out[:-1]
                finally:
                    import shutil
                    shutil.rmtree(tmpb, ignore_errors=True)
                ctx.monitor('build_minify_runs')
            elif config.startswith('cli'):
                # `p8tool luamin [--keep-names-from-file f] cart.p8`: the cart writer runs the Lua writer twice per write
                from pico8 import tool
                from .. import refcodec as rc, carts
                regions, _ = carts.random_regions(ctx.rng, 'zero')
                png = ctx.monitors.get('cli_runs', 0) % 3 == 2 and b'\x00' not in src and len(src) < 15000
                ext = '.p8.png' if png else '.p8'
                p1 = os.path.join(tmpd, ambient.BASE[0] + ext)
                with open(p1, 'wb') as fh:
                    if png:
                        area = rc.raw_code_area(src) if len(src) % 2 else rc.code_area_from_items(rc.c_greedy(src), len(src))
                        fh.write(rc.write_p8png(regions, area, 8))
                    else:
                        fh.write(rc.write_p8_variant(ctx.rng, regions, src, version=ambient.VERSION[0]))
                argv = [ambient.vflag(), 'luamin'] + (['--keep-names-from-file', keep_file] if config == 'cli_keep_file' else []) + [p1]
                if tool.main(argv):
                    raise RuntimeError('p8tool luamin failed')
                data = open(os.path.join(tmpd, ambient.BASE[0] + '_fmt' + ext), 'rb').read()
                if png:
                    # (the .p8.png reader's own normalisation is not at work here: the reference decoder returns the stored text)
                    r = rc.read_p8png(data)
                    out = rc.strip_future(rc.decode_code_area(r['code_area'], r['version']))
                    ctx.feature('cli_png_carts')
                else:
                    out = rc.read_p8(data)['code']
                if not src.endswith(b'\n') and out.endswith(b'\n'):
                    out = out[:-1] if not out[:-1].endswith(b'\n') or True else out
                ctx.monitor('cli_runs')
            else:
                two = ctx.monitors.get('minifier_runs', 0) % 4 == 1
                before = minify.FILLED_IN_TWO_STEPS[0]
                L, out = minify.minify_lib(src, ('keep_file' if config == 'keep_file' else config) + ('+two_steps' if two else ''), keep_file)
                if minify.FILLED_IN_TWO_STEPS[0] > before:
                    ctx.feature('object_filled_in_two_steps')
                if config == 'keep_file':
                    # second pass on the same Lua object with the same arguments, as the cart writer does
                    from pico8.lua import lua as _lua
                    args = {'keep_names_from_file': keep_file}
                    o1 = b''.join(L.to_lines(writer_cls=_lua.LuaMinifyTokenWriter, writer_args=args))
                    o2 = b''.join(L.to_lines(writer_cls=_lua.LuaMinifyTokenWriter, writer_args=args))
                    if o1 != out or o2 != out:
                        ctx.violation('repeated minification of the same Lua object gives different output (pass 2 %s)' % (
                            'differs' if o2 != out else 'same'), case)
                        return
        except Exception as e:
            ctx.violation('luamin raised %r' % (e,), case)
            return
    finally:
        if keep_file:
            import shutil
            shutil.rmtree(tmpd, ignore_errors=True)
    ctx.monitor('minifier_runs')
    ctx.feature('config:' + config)
    want_prefix = b''.join(h.raw + b'\n' for h in hdr[:2])
    ctx.monitor('header_prefixes_checked')
    if not out.startswith(want_prefix):
        d = next((i for i in range(min(len(out), len(want_prefix))) if out[i] != want_prefix[i]), min(len(out), len(want_prefix)))
        ctx.violation('output does not begin with the leading comments verbatim, one per line: expected %r..., got %r... (first difference at byte %d)' % (
            want_prefix[:80], out[:80], d), case)
        return
    rout, err = reflex.try_lex(out)
    if err is not None:
        ctx.violation('output does not lex: %s' % err, case)
        return
    cp = minify.comments_problem(rin, rout)
    if cp:
        ctx.violation(cp, case)
        return
    # title / byline as PICO-8 and stats derive them
    if hdr:
        ctx.monitor('titles_compared')
        if rout[0].kind != 'comment' or title_rule(rout[0].raw) != title_rule(hdr[0].raw):
            ctx.violation('title not derivable from the output: first token %r' % (rout[0].raw[:40],), case)
            return
        if len(hdr) >= 2:
            if len(rout) < 3 or rout[2].kind != 'comment' or title_rule(rout[2].raw) != title_rule(hdr[1].raw):
                ctx.violation('byline not derivable from the output: tokens %r' % ([t.raw[:20] for t in rout[:4]],), case)
                return
        try:
            L2 = lua.Lua.from_lines([out], version=ambient.VERSION[0])
            t2, b2 = L2.get_title(), L2.get_byline()
        except Exception as e:
            ctx.violation('output does not re-parse: %r' % (e,), case)
            return
        if t2 != title_rule(hdr[0].raw) or (len(hdr) >= 2 and b2 != title_rule(hdr[1].raw)):
            ctx.violation('stats derives title %r / byline %r from the output, the comments say %r / %r' % (
                t2, b2, title_rule(hdr[0].raw), title_rule(hdr[1].raw) if len(hdr) > 1 else None), case)
            return
    problem, pairs, info = minify.align(src, out, scopes)
    ctx.monitor('token_alignments')
    if problem is not None:
        ctx.violation('code/comment confusion: ' + problem[1], case)


def run_limit(spec, ctx):
    """Carts at PICO-8's 65535-character limit: the minified code alone is `margin` characters below the limit, so that code plus
    the two header comments is over it (or exactly at it); the header still has to come out first."""
    rng = ctx.rng
    for mi, margin in enumerate(spec['margins']):
        header = (b'-- my game\n-- by me\n', b'--t\n//b\n', b'--[[ title ]]\n-- author name here\n')[mi % 3]
        body_tail = b'\nfunction _draw() print(data) end\n'
        def source(n):
            return header + b'data="' + b'a' * n + b'"' + body_tail
        try:
            probe = minify.minify_lib(source(1000), 'default')[1]
        except Exception as e:
            ctx.violation('luamin raised %r' % (e,), {'src': source(10), 'config': 'default', 'scopes': []})
            return
        code_len = len(probe) - len(header) - 1000        # minified size of everything but the header and the string body
        m = len(header) + int(margin[3:] or 0) if isinstance(margin, str) else margin
        n = 65535 - m - code_len
        src = source(n)
        ctx.feature('limit_cases')
        ctx.feature('code_plus_header_over_65535' if m < len(header) else 'code_plus_header_within_65535')
        config = ('default', 'keep_all', 'cli')[mi % 3]
        check_one(ctx, src, [], config, {'src': src, 'config': config, 'scopes': []})
        ctx.monitor('limit_minified_code_chars', 65535 - m)
    ctx.sample({'limit': 'header + data="aaa..." sized so that the minified code alone is margin characters under 65535'})


def run_shard(spec, ctx):
    rng = ctx.rng
    if spec.get('kind') == 'limit':
        run_limit(spec, ctx)
        return
    for i in range(spec['count']):
        crlf = rng.random() < 0.15
        nl = b'\r\n' if crlf else b'\n'
        ncomments = rng.choice((0, 1, 1, 2, 2, 2, 3, 4))
        header, kinds = make_header(rng, ncomments, nl)
        body_kind = rng.choice(('program', 'program', 'program', 'none', 'tiny', 'return_first'))
        if body_kind == 'none':
            src = header
            scopes = []
        elif body_kind == 'return_first':
            # a data module: the code is one return statement
            src = header + rng.choice((b'return {1,2,3}', b'return\n', b'return data -- c\n', b'do return end\n'))
            scopes = []
            ctx.feature('code_is_a_return_statement')
        else:
            p = progen.gen_program(rng, {'depth': 1 if body_kind == 'tiny' else rng.choice((1, 2, 3)),
                                         'max_stmts': 1 if body_kind == 'tiny' else 4})
            lay = layout.Layout(p, rng, crlf=crlf, header=header, style=rng.choice(('tight', 'normal', 'lines', 'wild')))
            src = lay.render()
            if not layout.verify(p, src):
                ctx.monitor('generator_rejects')
                continue
            scopes = p.scopes
        if reflex.try_lex(src)[1] is not None:
            ctx.monitor('generator_rejects')
            continue
        if 'same-line-code' in kinds and body_kind != 'none':
            ctx.feature('code_on_header_line')
        config = rng.choice(('default', 'default', 'keep_all', 'keep_file', 'cli', 'cli_keep_file', 'build_minify'))
        if (config.startswith('cli') or config == 'build_minify') and (b'\r' in src or body_kind == 'none'):
            config = 'default'
        check_one(ctx, src, scopes, config, {'src': src, 'config': config, 'scopes': [list(s) for s in scopes]})
        if i == 0:
            ctx.sample({'source': src[:200]})


def replay(case, ctx):
    check_one(ctx, case['src'], [tuple(s) for s in case.get('scopes', [])], case.get('config', 'default'), case)


def gates(m, tier):
    f, mon = m['features'], m['monitors']
    missed = []
    for k in range(5):
        if f.get('leading_comments_%d' % k, 0) < 20:
            missed.append('%d leading comments: %d cases' % (k, f.get('leading_comments_%d' % k, 0)))
    for k in ('header_kind:dash', 'header_kind:slash', 'header_kind:block', 'header_kind:multiline-block', 'code_on_header_line', 'no_code',
              'no_final_newline'):
        if f.get(k, 0) < 10:
            missed.append('%s seen %d times' % (k, f.get(k, 0)))
    for c in ('default', 'keep_all', 'keep_file', 'cli', 'cli_keep_file', 'build_minify'):
        if f.get('config:' + c, 0) < 20:
            missed.append('configuration %s: %d' % (c, f.get('config:' + c, 0)))
    if f.get('code_plus_header_over_65535', 0) < 3 or f.get('code_plus_header_within_65535', 0) < 1:
        missed.append('carts at the character limit: over %d, within %d' % (f.get('code_plus_header_over_65535', 0),
                                                                           f.get('code_plus_header_within_65535', 0)))
    if f.get('object_filled_in_two_steps', 0) < 50:
        missed.append('Lua objects filled in two steps: %d' % f.get('object_filled_in_two_steps', 0))
    if f.get('cli_png_carts', 0) < 20 or f.get('build_minify_png_carts', 0) < 10:
        missed.append('minified .p8.png carts: luamin %d, build --lua-minify %d' % (f.get('cli_png_carts', 0), f.get('build_minify_png_carts', 0)))
    if mon.get('titles_compared', 0) < 200:
        missed.append('titles compared: %d' % mon.get('titles_compared', 0))
    return missed
