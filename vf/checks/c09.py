"""C09 — luafmt changes only whitespace, works on every valid program, never drops code.

Monitors on the real writers (LuaFormatterWriter via Lua.to_lines, and `p8tool luafmt [--overwrite]`):
 (a) valid programs (vf.progen x vf.layout x indent width 0-8): the call must succeed; input and output are lexed by the
     reference lexer and aligned: significant tokens identical (strings by decoded value), comments identical up to internal
     whitespace, in order; every line scope keeps its extent; picotool's own token count is unchanged.
 (b) lexable inputs picotool does not parse to the end (one token deleted/inserted/duplicated, `a |= 1`, `?x,y`, stray `end`/`)`):
     every tree-driven writer must either raise or emit all tokens; the CLI must then fail or write a complete cart, and
     `--overwrite` must not replace the input by a shortened program.
 (c) degenerate programs: empty, whitespace only, comment only, no final newline.
"""
import os
from .. import ambient
import shutil
import tempfile

from .. import progen, layout, reflex, carts
from .. import refcodec as rc

LEVEL = 'exploration'
RULE = ('(a) generated dialect programs (depth 1-3, thorough to 5; all literal forms; parenthesised prefixes) x random layouts x indent widths 0-8; '
        '(b) mutants of such programs that picotool lexes but does not parse to the end; (c) degenerate programs; a sample of (a) and (b) through '
        '`p8tool luafmt` and `luafmt --overwrite`. Non-trivial: >= 8 significant tokens; distinct by (source, width) hash')
ASSUMPTIONS = [
    'string literals are compared by decoded value (their spelling is C06\'s subject), comments after collapsing whitespace runs',
    '"fails with an error" = any exception or non-zero return; a complete output is also accepted for unparsed input',
    'mutants that happen to be valid programs are checked under clause (a) without scope expectations',
]
EXHAUSTIVE = {'quick': False, 'thorough': False}
PYOPT_KINDS = ('valid',)
CLOCALE_KINDS = ('valid',)
KNOWN_KEYS = {'paren-prefix-suffix', 'no-final-newline-indexerror', 'silent-truncation', 'empty-program-indexerror'}


def plan(tier, seed):
    n = 16 if tier == 'quick' else 64
    specs = [{'kind': 'valid', 'count': 90 if tier == 'quick' else 500, 'cli': i < 3, 'deep': tier == 'thorough' and i % 4 == 1}
             for i in range(n)]
    for i in range(4 if tier == 'quick' else 16):
        specs.append({'kind': 'invalid', 'count': 120 if tier == 'quick' else 600, 'cli': i < 2})
    specs.append({'kind': 'degenerate'})
    for i in range(2 if tier == 'quick' else 6):
        specs.append({'kind': 'big', 'count': 2})
    return specs


def norm_comment(c):
    return b' '.join(c.split())


def align(ctx, src, out, case, scopes=None, key=None, what='luafmt output'):
    """Token/comment alignment of input and output under the reference lexer.  -> True when equal."""
    a = [t for t in reflex.lex(src) if t.kind not in ('space', 'newline')]
    ot, err = reflex.try_lex(out)
    if err is not None:
        ctx.violation('%s does not lex: %s' % (what, err), case, key=key)
        return False
    b = [t for t in ot if t.kind not in ('space', 'newline')]
    ctx.monitor('alignments')
    ctx.monitor('tokens_aligned', len(a))
    for i in range(min(len(a), len(b))):
        x, y = a[i], b[i]
        same = x.kind == y.kind and (x.value == y.value if x.kind == 'string' else
                                     norm_comment(x.raw) == norm_comment(y.raw) if x.kind == 'comment' else x.raw == y.raw)
        if not same:
            ctx.violation('%s: token %d is %s %r, input has %s %r' % (what, i, y.kind, y.raw[:40], x.kind, x.raw[:40]), case, key=key)
            return False
    if len(a) != len(b):
        ctx.violation('%s has %d tokens/comments, input has %d (first missing/extra: %r)' % (
            what, len(b), len(a), (a[len(b)].raw[:40] if len(a) > len(b) else b[len(a)].raw[:40])), case, key=key)
        return False
    if scopes:
        so = [t for t in ot if t.sig]
        for (i, j, kind) in scopes:
            if kind == 'tight':
                continue
            ctx.monitor('line_scopes_checked')
            first, last = so[i], so[j]
            if last.line + last.raw.count(b'\n') != first.line:
                ctx.violation('%s: line-scoped construct starting at token %d (%r) no longer sits on one line' % (
                    what, i, first.raw), case, key=key)
                return False
            if kind is True and j + 1 < len(so) and so[j + 1].line == first.line:
                ctx.violation('%s: token %r moved onto the line of the line-scoped construct that ended before it' % (
                    what, so[j + 1].raw[:30]), case, key=key)
                return False
    return True


def classify_exc(e, p_feats, src):
    import traceback
    tb = traceback.extract_tb(e.__traceback__)
    names = [t.name for t in tb]
    if isinstance(e, IndexError) and '_get_semis' in names[-2:]:
        if not reflex.sig(reflex.lex(src)):
            return 'empty-program-indexerror'
        if not src.endswith(b'\n') or True:
            return 'no-final-newline-indexerror'
    if isinstance(e, AssertionError) and 'paren-prefix-suffix' in p_feats and names[-1] in ('_get_text', '_get_name'):
        return 'paren-prefix-suffix'
    return None


def check_valid(ctx, src, width, scopes, feats, tag, cli_dir=None):
    from pico8.lua import lua
    case = {'src': src, 'width': width, 'tag': tag, 'feats': sorted(feats), 'scopes': [list(s) for s in (scopes or [])]}
    nsig = len(reflex.sig(reflex.lex(src)))
    ctx.case((src, width), nontrivial=nsig >= 8)
    ctx.feature('width_%d' % width)
    for f in feats:
        if f in ('shortif', 'qprint', 'paren-prefix-suffix', 'paren-op-prefix', 'StatAssignment:compound', 'StatLabel'):
            ctx.feature(f)
    ctx.feature('final_newline' if src.endswith(b'\n') else 'no_final_newline')
    try:
        L = lua.Lua.from_lines([src], version=ambient.VERSION[0])
    except Exception as e:
        # "for every valid program luafmt succeeds": a program of the dialect that picotool does not even load cannot be formatted
        # (C07 / C08 judge the same rejection as the lexer's or the parser's own failure)
        ctx.violation('luafmt cannot succeed: picotool rejects a valid program: %r' % (e,), case)
        return
    count_before = L.get_token_count()
    try:
        out = b''.join(L.to_lines(writer_cls=lua.LuaFormatterWriter, writer_args={'indentwidth': width}))
    except Exception as e:
        ctx.violation('luafmt raised %s: %s on a valid program' % (type(e).__name__, e), case,
                      key=classify_exc(e, feats, src))
        return
    ctx.monitor('formatter_runs')
    if not align(ctx, src, out, case, scopes):
        return
    try:
        L2 = lua.Lua.from_lines([out], version=ambient.VERSION[0])
        count_after = L2.get_token_count()
    except Exception as e:
        ctx.violation('formatted code no longer parses: %r' % (e,), case)
        return
    ctx.monitor('token_counts_compared')
    if count_before != count_after:
        ctx.violation('token count changed %d -> %d' % (count_before, count_after), case)
        return
    if cli_dir is not None and b'\r' not in src:
        run_cli(ctx, src, width, case, cli_dir, scopes, expect_ok=True)


def run_cli(ctx, src, width, case, cli_dir, scopes, expect_ok):
    from pico8 import tool
    regions, _ = carts.random_regions(ctx.rng, 'sparse')
    for overwrite in (False, True):
        p1 = os.path.join(cli_dir, ambient.BASE[0] + '.p8')
        pf = os.path.join(cli_dir, ambient.BASE[0] + '_fmt.p8')
        for f in (p1, pf):
            if os.path.exists(f):
                os.remove(f)
        orig = rc.write_p8_variant(ctx.rng, regions, src, version=ambient.VERSION[0])
        with open(p1, 'wb') as fh:
            fh.write(orig)
        argv = [ambient.vflag(), 'luafmt', '--indentwidth', str(width)] + (['--overwrite'] if overwrite else []) + [p1]
        err = None
        try:
            rcode = tool.main(argv)
        except BaseException as e:   # argparse may SystemExit
            err = e
            rcode = 1
        ctx.monitor('cli_runs')
        outp = p1 if overwrite else pf
        want = src if src.endswith(b'\n') else src + b'\n'
        if err is not None or rcode:
            if expect_ok:
                import traceback
                key = classify_exc(err, case.get('feats', []), src) if isinstance(err, Exception) else None
                ctx.violation('p8tool luafmt%s failed on a valid program: %r' % (' --overwrite' if overwrite else '', err or rcode),
                              case, key=key)
                return
            # refusal: the input must be intact, no partial output
            if open(p1, 'rb').read() != orig:
                ctx.violation('luafmt --overwrite failed but the input file changed', case)
                return
            if not overwrite and os.path.exists(pf):
                got = rc.read_p8(open(pf, 'rb').read())['code']
                if not align_quiet(want, got):
                    ctx.violation('luafmt failed but left a shortened _fmt.p8', case)
                    return
            continue
        # success: output must be complete
        if not os.path.exists(outp):
            ctx.violation('p8tool luafmt%s reported success (status %r) and wrote no output file%s' % (
                ' --overwrite' if overwrite else '', rcode, '' if expect_ok else ' for code that is not parsed to its end: it has to fail with an error'), case)
            return
        data = open(outp, 'rb').read()
        try:
            got = rc.read_p8(data)['code']
        except Exception as e:
            ctx.violation('luafmt output unreadable: %r' % (e,), case)
            return
        if expect_ok:
            if not align(ctx, want, got, case, scopes, what='p8tool luafmt%s output' % (' --overwrite' if overwrite else '')):
                return
        elif not align_quiet(want, got):
            a = [t for t in reflex.lex(want) if t.sig]
            b = [t for t in reflex.lex(got) if t.sig] if reflex.try_lex(got)[0] is not None else []
            ctx.violation('p8tool luafmt%s wrote a shortened program without error: %d of %d tokens' % (
                ' --overwrite' if overwrite else '', len(b), len(a)), case, key='silent-truncation')
            return


def align_quiet(src, out):
    a = [t for t in reflex.lex(src) if t.kind not in ('space', 'newline')]
    ot, err = reflex.try_lex(out)
    if err is not None:
        return False
    b = [t for t in ot if t.kind not in ('space', 'newline')]
    if len(a) != len(b):
        return False
    for x, y in zip(a, b):
        if x.kind != y.kind:
            return False
        if x.kind == 'string':
            if x.value != y.value:
                return False
        elif x.kind == 'comment':
            if norm_comment(x.raw) != norm_comment(y.raw):
                return False
        elif x.raw != y.raw:
            return False
    return True


def mutate(rng, p):
    """-> (tokens, description) for a mutant of program p's token list."""
    toks = list(p.toks)
    k = rng.randrange(8)
    if k == 0 and toks:
        i = rng.randrange(len(toks))
        d = 'delete token %d %r' % (i, toks[i][1])
        del toks[i]
    elif k == 1 and toks:
        i = rng.randrange(len(toks))
        d = 'duplicate token %d %r' % (i, toks[i][1])
        toks.insert(i, toks[i])
    elif k == 2:
        i = rng.randrange(len(toks) + 1)
        t = rng.choice([('keyword', b'end'), ('symbol', b')'), ('symbol', b'('), ('keyword', b'then'), ('symbol', b'='),
                        ('symbol', b'}'), ('keyword', b'do'), ('name', b'zz'), ('number', b'7'), ('symbol', b',')])
        d = 'insert %r at %d' % (t[1], i)
        toks.insert(i, t)
    elif k == 3:
        return toks, 'append |=', b'\na |= 1\nb=2\n'
    elif k == 4:
        return toks, 'append ?x,y', b'\n?x,y\nz=1\n'
    elif k == 5:
        return toks, 'append stray end', b'\nend\nq=1\n'
    elif k == 6:
        return toks, 'append stray )', b'\n)\nq=1\n'
    else:
        return toks, 'append newer operator', rng.choice((b'\na ^= 2\nb=1\n', b'\na //= 2\n', b'\nx = a ~ b\ny=2\n', b'\nwhile (x) y=1\nz=2\n'))
    return toks, d, b''


def check_invalid(ctx, rng, p, cli_dir):
    from pico8.lua import lua, lexer
    toks, desc, tail = mutate(rng, p)
    q = progen.Program()
    q.toks = toks
    q.scopes = []
    q.stmts = []
    lay = layout.Layout(q, rng, style=rng.choice(('normal', 'lines', 'tight')), crlf=False)
    src = lay.render() + tail
    rt, err = reflex.try_lex(src)
    if err is not None:
        ctx.feature('mutant_not_lexable')
        return
    case = {'src': src, 'mutation': desc, 'tag': 'invalid'}
    try:
        L = lua.Lua.from_lines([src], version=ambient.VERSION[0])
    except Exception:
        ctx.feature('mutant_rejected_by_parser')
        return
    rest = [t for t in L.tokens[L.root.end_pos:] if not isinstance(t, (lexer.TokSpace, lexer.TokNewline, lexer.TokComment))]
    if not rest:
        ctx.feature('mutant_is_valid')
        return
    ctx.case(src, nontrivial=len(toks) >= 8)
    ctx.feature('mutant_not_fully_parsed')
    ctx.feature('mutation:' + desc.split()[0] + (' ' + desc.split()[1] if desc.startswith('append') else ''))
    for wname in ('LuaFormatterWriter', 'LuaASTEchoWriter', 'LuaMinifyWriter'):
        w = getattr(lua, wname)
        try:
            out = b''.join(L.to_lines(writer_cls=w, writer_args={'indentwidth': 2} if wname == 'LuaFormatterWriter' else None))
        except Exception:
            ctx.monitor('unparsed_input_refused')
            continue
        ctx.monitor('unparsed_input_written')
        a = [t for t in rt if t.sig]
        ot, e2 = reflex.try_lex(out)
        b = [t for t in ot if t.sig] if ot is not None else []
        if len(b) < len(a):
            ctx.violation('%s wrote %d of the input\'s %d tokens without raising (input not parsed to its end: %s)' % (
                wname, len(b), len(a), desc), case, key='silent-truncation')
            return
    if cli_dir is not None:
        run_cli(ctx, src, 2, case, cli_dir, None, expect_ok=False)


def run_shard(spec, ctx):
    rng = ctx.rng
    cli_dir = tempfile.mkdtemp(prefix='vf-c09-') if spec.get('cli') else None
    try:
        if spec['kind'] == 'degenerate':
            for src in (b'', b'\n', b' ', b'  \n\n', b'\t', b'-- only a comment', b'-- only a comment\n', b'--[[block]]', b'// c\n\n',
                        b'x=1', b'x=1 ', b'x=1 -- c', b'if (a) b=1', b'?"x"', b'function f() end', b'\n\nx=1', b'x=1\n\n\n', b'::l::',
                        b'return', b'return 1', b';', b';;\n', b'x=1;', b'do end',
                        # small programs of forms the random generator reaches only now and then: a parenthesised vararg, a string
                        # call on a method, semicolon-only blocks, `if (c) do`, strings that spell words, unary chains
                        b'local a=(...)\nf((...))\nt={(...)}\n', b'o:m"s"\no:m[[s]]\no:m{1}\nf"s".x=1\n', b'while w do ; end\ndo ; end\nrepeat ; until x\n',
                        b'if (c) do\n x=1\nend\n', b'if (c) do -- note\nelse y=1 end\n', b'x=type(v)=="nil" or s==\'true\' or [[false]]\n',
                        b'x=not not y\nz=-#t\nw=- -a\nv=~-b\n', b'x=.5e3+0x.8+0b.1+.05\n', b'in1,end1,or2,not0=1,2,3,4\n',
                        b't={a=1,a=2,["a"]=3}\ng[i(x)]+=1\np().hp-=1\n', b'if a then\nelse if b then\n c=1\nend end\n', b'x=\n 1\ny =\n{\n}\n'):
                for w in (0, 2, 4):
                    ctx.feature('degenerate')
                    check_valid(ctx, src, w, None, set(), 'degenerate')
            ctx.sample({'degenerate': 'empty, whitespace-only, comment-only, no final newline'})
            return
        if spec['kind'] == 'big':
            # cart-sized programs: hundreds of statements, many comments, tens of thousands of characters
            done = 0
            for i in range(spec['count'] * 4):
                if done >= spec['count']:
                    break
                p = progen.gen_program(rng, {'depth': 2, 'max_stmts': 2, 'top_stmts': (350, 220)[i % 2], 'goto': False,
                                             'stat_bias': ['shortif'] * 10 + ['if', 'do', 'function', 'forin', 'qprint'] * 3,
                                             'exotic_numbers': True, 'exotic_strings': True, 'multiline_strings': False,
                                             'table_methods': 0.3})
                src = layout.render(p, rng, style=('wild', 'normal', 'lines')[i % 3])
                if src is None:
                    ctx.monitor('generator_rejects')
                    continue
                done += 1
                ctx.feature('big_programs')
                ctx.monitor('big_program_chars', len(src))
                check_valid(ctx, src, (2, 4, 0, 8)[i % 4], p.scopes, p.feats, 'valid-big')
            return
        for i in range(spec['count']):
            depth = rng.choice((1, 2, 2, 3)) if not spec.get('deep') else rng.choice((3, 4, 5))
            p = progen.gen_program(rng, {'depth': depth, 'max_stmts': 4 if depth <= 3 else 2, 'exotic_numbers': True,
                                         'exotic_strings': True, 'paren_op_prefix': rng.random() < 0.3,
                                         'nested_short_if': rng.random() < 0.1})
            if spec['kind'] == 'valid':
                src = layout.render(p, rng)
                if src is None:
                    ctx.monitor('generator_rejects')
                    continue
                if i % 7 == 3 and b'\r' not in src:
                    # old-Mac line ends: every line break is a lone CR (the lexer has a newline rule for it).  Line numbers lose
                    # their meaning for the scope oracle, so only tokens and comments are aligned for this variant.
                    cr = src.replace(b'\n', b'\r')
                    if layout.verify_tokens_only(p, cr):
                        ctx.feature('bare_cr_line_ends')
                        check_valid(ctx, cr, rng.randrange(9), None, p.feats, 'valid-cr')
                check_valid(ctx, src, rng.randrange(9), p.scopes, p.feats, 'valid',
                            cli_dir if (cli_dir and i % 6 == 0) else None)
                if i == 0:
                    ctx.sample({'source': src[:200]})
            else:
                check_invalid(ctx, rng, p, cli_dir if (cli_dir and i % 4 == 0) else None)
    finally:
        if cli_dir:
            shutil.rmtree(cli_dir, ignore_errors=True)


def replay(case, ctx):
    from pico8.lua import lua, lexer
    src = case['src']
    if case.get('tag') == 'invalid':
        L = lua.Lua.from_lines([src], version=ambient.VERSION[0])
        a = reflex.sig(reflex.lex(src))
        ctx.case(src)
        for wname in ('LuaFormatterWriter', 'LuaASTEchoWriter', 'LuaMinifyWriter'):
            try:
                out = b''.join(L.to_lines(writer_cls=getattr(lua, wname)))
            except Exception:
                continue
            ot = reflex.try_lex(out)[0]
            if ot is None or len(reflex.sig(ot)) < len(a):
                ctx.violation('%s wrote a shortened program without raising' % wname, case, key='silent-truncation')
                return
    else:
        check_valid(ctx, src, case.get('width', 2), [tuple(s) for s in case.get('scopes', [])], set(case.get('feats', [])),
                    case.get('tag', 'replay'))


def gates(m, tier):
    f, mon = m['features'], m['monitors']
    missed = []
    for w in range(9):
        if f.get('width_%d' % w, 0) < 20:
            missed.append('indent width %d used %d times' % (w, f.get('width_%d' % w, 0)))
    for k in ('shortif', 'qprint', 'paren-prefix-suffix', 'final_newline', 'no_final_newline', 'degenerate', 'mutant_not_fully_parsed',
              'bare_cr_line_ends'):
        if f.get(k, 0) < 20:
            missed.append('%s seen %d times' % (k, f.get(k, 0)))
    if f.get('big_programs', 0) < 3:
        missed.append('cart-sized programs: %d' % f.get('big_programs', 0))
    if mon.get('formatter_runs', 0) < 500:
        missed.append('formatter runs: %d' % mon.get('formatter_runs', 0))
    if mon.get('cli_runs', 0) < 30:
        missed.append('cli runs: %d' % mon.get('cli_runs', 0))
    if mon.get('unparsed_input_refused', 0) + mon.get('unparsed_input_written', 0) < 50:
        missed.append('too few unparsed inputs reached the writers')
    return missed
