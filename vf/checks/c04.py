"""C04 — .p8.png write/read round trip preserves cart and label picture.

Monitor: the real writers (file.to_file on a temp path, P8PNGFormatter.to_file on a stream) are run on
generated carts.  Outcome must be
   success  AND  the file is a valid PNG (decoded by vf.refcodec.png_decode: signature, CRCs, zlib, sizes, filters)
            AND  upper six bits of every channel == label source (existing destination / bundled blank label)
            AND  low two bits unpack (reference stego) to the cart memory: regions, code area (reference raw / :c:
                 decoder gives the code), version byte at 0x8000
            AND  picotool's own reader returns identical regions, version and code (modulo the reader's final newline
                 and CR->space)
   or refusal (exception) AND destination bytes/existence untouched.
Whether a cart "fits" is decided independently from raw length and the reference greedy encoder's size.
"""
import io
import os
import shutil
import tempfile

from .. import carts
from .. import ambient
from .. import refcodec as rc

LEVEL = 'exploration'
RULE = ('carts with random/structured regions, versions 0..255, code classes {empty, one char, short, typical, repetitive, _update60 at '
        'start/middle/end, incompressible at 0x3d00+{-2..2}, compressed size near the limit, clearly oversize, > 64 kB (thorough)} x destination '
        '{absent, existing with random label pixels} x entry {file.to_file, P8PNGFormatter.to_file on a stream}, plus .p8 -> .p8.png -> .p8 '
        'conversions; non-trivial: non-empty code or non-zero regions; distinct by hash of (memory, code, version, label)')
ASSUMPTIONS = [
    'versions are 0..255 (the format stores one byte); version 0 is a separately tagged class because its reader never decompresses',
    'fits := raw length <= 0x3d00 or reference-greedy compressed size + 8 + margin <= 0x3d00; clearly oversize := both beyond the limit by the margin; '
    'between the two only consistency (exact round trip or clean refusal) is required; margin = 64 + size/50 (+80 with _update60)',
    'code longer than 65535 bytes does not fit (16-bit length header, PICO-8 character limit)',
    'label source images are 160x205 8-bit RGBA PNGs',
]
EXHAUSTIVE = {'quick': False, 'thorough': False}
PYOPT_KINDS = (None,)
CLOCALE_KINDS = (None,)
TIMEOUT = {'quick': 1500, 'thorough': 10800}
KNOWN_KEYS = {'label-png-phys-chunk', 'raw-branch-typeerror', 'oversize-not-refused', 'version0-compressed'}
LIMIT = rc.CODE_SIZE


def plan(tier, seed):
    cases = []
    light = ['empty', 'onechar', 'short', 'typical', 'typical', 'repetitive_small', 'update60_start', 'update60_middle',
             'update60_end', 'update60_raw', 'crlf', 'glyphs', 'allbytes', 'version0', 'stream_entry', 'convert', 'cli_entry']
    nl = 15 if tier == 'quick' else 120
    for r in range(nl):
        for c in light:
            cases.append({'cls': c})
    heavy = [{'cls': 'incompressible', 'delta': d} for d in (-2, -1, 0, 1, 2)]
    heavy += [{'cls': 'near_compressed', 'target': t} for t in ((-400, 0, 400) if tier == 'quick' else (-900, -300, -100, 0, 100, 300, 900))]
    heavy += [{'cls': 'edge_compressed', 'over': d} for d in ((-1, 0, 1, 2, 8, 9) if tier == 'quick' else (-3, -2, -1, 0, 1, 2, 3, 4, 5, 6, 7, 8, 9, 10, 16))]
    heavy += [{'cls': 'oversize', 'n': n} for n in ((LIMIT + 65 + 900, 20000) if tier == 'quick' else (LIMIT + 65 + 900, 20000, 30000, 66000, 70000))]
    heavy += [{'cls': 'oversize', 'n': 21000, 'entry': 'build', 'dest_exists': False}, {'cls': 'oversize', 'n': 24000, 'entry': 'build', 'dest_exists': True}]
    heavy += [{'cls': 'repetitive_big', 'n': n} for n in ((20000,) if tier == 'quick' else (20000, 40000, 65535))]
    heavy += [{'cls': 'repetitive_big', 'n': 20000, 'unit': 0}, {'cls': 'repetitive_big', 'n': 30000, 'unit': 2}]
    # (carts of every old version number whose code fits only compressed)
    heavy += [{'cls': 'repetitive_big', 'n': 18000 + 500 * v, 'unit': 1, 'cart_version': v} for v in (1, 2, 3, 4, 5, 7)]
    if tier == 'thorough':
        heavy = heavy + [dict(h) for h in heavy if h['cls'] in ('incompressible', 'near_compressed')]
    nsh = 16
    specs = [{'cases': []} for _ in range(nsh)]
    for i, h in enumerate(heavy):
        specs[i % nsh]['cases'].append(h)
    for i, c in enumerate(cases):
        specs[(i + len(heavy)) % nsh]['cases'].append(c)
    return specs


def make_code(rng, c):
    cls = c['cls']
    if cls == 'empty':
        return b''
    if cls == 'onechar':
        return rng.choice((b'x', b';', b'\n', b'a', b'1'))
    if cls == 'short':
        return rng.choice((b'x=1', b'x=1\n', b'print("hi")\n', b'a=b\nc=d', b'-- t\n'))
    if cls == 'convert' and rng.random() < 0.3:
        return b''       # (a cart without code: PICO-8 saves it without a Lua section)
    if cls in ('typical', 'stream_entry', 'convert', 'version0', 'cli_entry'):
        return carts.varied_lua(rng, rng.choice((40, 300, 2000, 6000)))
    if cls == 'allbytes':
        # every byte value a comment, a quoted string, a long string or a name can hold (NUL and CR aside: raw storage ends at the first,
        # the reader turns the second into a blank)
        # (quoted strings are left out: the writer may re-spell them, which C06 judges)
        lines = [l for l in carts.bytes_lua(rng, rng.choice((6, 20, 60))).replace(b'\x00', b'\x01').split(b'\n') if l[:3] not in (b's="', b"s='")]
        return b'\n'.join(lines)
    if cls == 'glyphs':
        return carts.simple_lua(rng, rng.choice((100, 1500)), glyphs=True)
    if cls == 'crlf':
        return carts.simple_lua(rng, 300).replace(b'\n', b'\r\n')
    if cls == 'repetitive_small':
        return b'x=1\n' * rng.randint(50, 1200)
    if cls == 'repetitive_big':
        # (with the first unit the code has far more than 8192 tokens - PICO-8's limit for RUNNING a cart, which the statement does
        # not mention: the code fits the code area, so the cart is written)
        unit = (b'x=1\n', b'print("abc")\n', b'a,b=b,a ')[c.get('unit', rng.randrange(2))]
        return unit * (c['n'] // len(unit))
    if cls == 'update60_raw':
        # code that mentions _update60 and does not shrink: it is stored as it is
        return carts.incompressible(rng, rng.choice((200, 3000, 9000))) + rng.choice((b'\nfunction _update60() end\n', b'\n_update60=nil', b'\nif(_update60) x=1\n'))
    if cls.startswith('update60_'):
        return carts.simple_lua(rng, rng.choice((60, 800)), update60=cls.split('_')[1])
    if cls == 'incompressible':
        return carts.incompressible(rng, LIMIT + c['delta'])
    if cls == 'oversize':
        if c.get('entry') == 'build':
            # the bulk is a later comment (not one of the two header comments): the code as written cannot fit, whatever a
            # transformation nobody asked for could make of it
            return b'-- title\n-- author\nx=1\n' + carts.incompressible(rng, c['n']) + b'\ny=2\n'
        return carts.incompressible(rng, c['n'])
    if cls == 'edge_compressed':
        # the compressed stream ends `over` bytes past (or before) the last byte of the code area: the cart either comes back whole or
        # is refused
        return carts.edge_text(__import__('random').Random(c['over'] * 31 + 7), LIMIT - 8 + c['over'])
    if cls == 'near_compressed':
        # random lower-case words: mostly literals, some short matches; tune length with the reference encoder
        def text(n):
            r2 = __import__('random').Random(c['target'] * 7919 + 13)
            return b'--' + bytes(r2.choice(b'abcdefghijklmnopqrstuvwxyz0123456789 ') for _ in range(n))
        n = 16000
        for _ in range(6):
            est = rc.c_size(rc.c_greedy(text(n))) + 8
            n += int((LIMIT + c['target'] - est) * 1.05)
        return text(n)
    raise AssertionError(cls)


def expectation(code):
    raw = len(code)
    if raw > 65535:
        return 'refuse', None, None
    est = rc.c_size(rc.c_greedy(code)) + 8 if raw > LIMIT - 200 else None
    if raw <= LIMIT:
        return 'succeed', est, None
    margin = 64 + est // 50 + (80 if b'_update60' in code else 0)
    if est + margin <= LIMIT:
        return 'succeed', est, margin
    if est - margin > LIMIT and raw > LIMIT + margin:
        return 'refuse', est, margin
    return 'either', est, margin


def norm_code(code):
    return code.replace(b'\r', b' ')


def code_matches(got, want):
    w = norm_code(want)
    return got == w or got == w + b'\n'


INTERLACED = [0]
NOT_RGBA = [0]


def random_label_png(rng):
    w, h = rc.CART_W, rc.CART_H
    if rng.random() < 0.15:
        # a picture that is not cartridge-sized but has room for the cart (a screenshot at double size, a row or column more)
        w, h = rng.choice(((320, 410), (160, 206), (161, 205), (200, 300), (205, 160)))
    rows = [bytearray(carts.random_bytes(rng, w * 4)) for _ in range(h)]
    filters = [rng.randrange(5) for _ in range(h)]
    # what an image editor leaves in a retouched cartridge picture: ancillary chunks, several IDAT chunks
    import struct
    pool = [(b'gAMA', struct.pack('>I', 45455)), (b'pHYs', struct.pack('>IIB', 2835, 2835, 1)), (b'bKGD', struct.pack('>HHH', 0, 0, 0)),
            (b'tEXt', b'Software\x00some editor'), (b'sRGB', b'\x00'), (b'tIME', struct.pack('>HBBBBB', 2021, 3, 4, 5, 6, 7))]
    extra = [c for c in pool if rng.random() < 0.3]
    if rng.random() < 0.1:
        # a picture without alpha channel (a screenshot saved under the cart's name): it has no room for the cart's top two bits, so the
        # write is either refused (the picture stays) or produces a picture that does hold the cart
        NOT_RGBA[0] += 1
        return rc.png_encode_rgb(w, h, rows), rows
    if rng.random() < 0.15:
        # saved with the "interlaced" option of an image editor (Adam7)
        INTERLACED[0] += 1
        return rc.png_encode(w, h, rows, extra_chunks=extra, interlace=True), rows
    return rc.png_encode(w, h, rows, filters, extra_chunks=extra, idat_pieces=rng.choice((1, 1, 3, 40))), rows


_BLANK = {}


def blank_label_rows():
    if 'rows' not in _BLANK:
        import pico8.game.formatter.p8png as m
        with open(m.EMPTY_LABEL_FNAME, 'rb') as fh:
            _BLANK['rows'] = rc.png_decode(fh.read())[2]
    return _BLANK['rows']


def classify(code, version, outcome, err):
    """Mechanism key for a failing case, by where and how it failed."""
    exp, est, margin = expectation(code)
    if outcome == 'raised' and isinstance(err, TypeError) and 'encoding without a string argument' in str(err):
        return 'raw-branch-typeerror'
    if exp == 'refuse' and outcome != 'raised':
        return 'oversize-not-refused'
    if exp == 'either' and outcome in ('mismatch', 'invalid'):
        return 'oversize-not-refused'
    if version == 0 and outcome in ('mismatch', 'readerror'):
        return 'version0-compressed'
    return None


def run_case(ctx, rng, c, workdir):
    from pico8.game import file as p8file
    from pico8.game.formatter.p8png import P8PNGFormatter
    cls = c['cls']
    regions, mode = carts.random_regions(rng)
    version = 0 if cls == 'version0' else rng.choice((1, 5, 8, 33, 255, rng.randint(1, 255)))
    if 'cart_version' in c:
        version = c['cart_version']
    code = c.get('code') if c.get('code') is not None else make_code(rng, c)
    dest_exists = c.get('dest_exists', rng.random() < 0.5)
    entry = c.get('entry', 'stream' if cls == 'stream_entry' else 'convert' if cls == 'convert' else
                  'cli' if cls == 'cli_entry' else 'file')
    case = {'cls': cls, 'code': code, 'version': version, 'regions': {k: v for k, v in regions.items()},
            'dest_exists': dest_exists, 'entry': entry}
    if 'regions' in c:
        regions = c['regions']
        version = c['version']
        case['regions'] = regions
        case['version'] = version
    if entry == 'convert':
        # the .p8 text format has no place for bit 7 of each pattern's 4th channel byte (see C03)
        regions = dict(regions)
        regions['music'] = rc.music_mask(regions['music'])
        case['regions'] = regions
    nontrivial = bool(code) or any(any(v) for v in regions.values())
    mem = rc.join_memory(regions)
    ctx.case((mem, code, version, dest_exists, entry), nontrivial=nontrivial)
    ctx.feature('class:' + cls)
    ctx.feature('dest_exists' if dest_exists else 'dest_absent')
    ctx.feature('regions_' + mode)
    exp, est, margin = expectation(code)
    ctx.feature('expect_' + exp)

    # the cart may carry a label of its own (carts loaded from a .p8 with a __label__ section do): the picture of the written image
    # still comes from the label SOURCE the statement names (the existing destination, else the bundled blank label)
    own_label = carts.random_bytes(rng, 8192) if rng.random() < 0.4 else None
    if own_label is not None:
        ctx.feature('cart_has_label_of_its_own')
    try:
        g = carts.make_game(regions, code=code, version=version, label=own_label)
    except Exception as e:
        # (the code reaches the library in one piece here, as it does when it comes out of a .p8.png; every generated class lexes)
        ctx.violation('making the cart object from its code (one chunk) raised %r' % (e,), case)
        return
    if version != 0 and rng.random() < 0.25:
        # the cart's version and the version its code object was made for are independent attributes (code taken over from another
        # cart, as `build --lua` does; a .p8 without Lua section keeps the default code object): the file carries the cart's version
        from pico8.lua.lua import Lua
        g.lua = Lua.from_lines([code], version=rng.choice([v for v in (33, 8, 41, 1, 255) if v != version]))
        ctx.feature('code_object_of_another_version')
        case['history'] = 'game.lua was replaced by a Lua object made for another version before saving'
    if rng.random() < 0.15:
        # the cart's sprite sheet is replaced by another Gfx object (the library allows assigning sections, `build --gfx` does it; the
        # map keeps the object it was created with): the cart's gfx is what game.gfx holds now
        from pico8.gfx.gfx import Gfx
        regions = dict(regions, gfx=carts.random_bytes(rng, 8192))
        g.gfx = Gfx.from_bytes(regions['gfx'], version=version or 8)
        case['regions'] = dict(regions)
        case['history'] = case.get('history', '') + '; game.gfx was replaced by another Gfx object before saving'
        ctx.feature('gfx_object_replaced')
    # the same destination path is reused for the whole shard: a write must take its label from what is at the path NOW
    dest = os.path.join(workdir, BASE[0] + '.p8.png')
    if os.path.exists(dest):
        os.remove(dest)
    label_rows = blank_label_rows()
    before = None
    if dest_exists:
        n_int = INTERLACED[0]
        n_rgb = NOT_RGBA[0]
        png, label_rows = random_label_png(rng)
        if NOT_RGBA[0] > n_rgb:
            ctx.feature('label_source_without_alpha_channel')
            if exp == 'succeed':
                exp = 'either'
        if INTERLACED[0] > n_int:
            ctx.feature('interlaced_label_source')
        with open(dest, 'wb') as fh:
            fh.write(png)
        before = png
    listing_before = sorted(os.listdir(workdir))
    err = None
    data = None
    try:
        if entry == 'stream':
            buf = io.BytesIO()
            P8PNGFormatter.to_file(g, buf, label_fname=dest if dest_exists else None)
            data = buf.getvalue()
        elif entry == 'cli':
            # `p8tool writep8|luafmt in.p8.png` writes in_fmt.p8.png; an earlier in_fmt.p8.png is its label source
            from pico8 import tool
            src = os.path.join(workdir, BASE[0] + '-in.p8.png')
            with open(src, 'wb') as fh:
                fh.write(rc.write_p8png(regions, rc.raw_code_area(code), version))
            out = os.path.join(workdir, BASE[0] + '-in_fmt.p8.png')
            if os.path.exists(out):
                os.remove(out)
            if dest_exists:
                shutil.move(dest, out)
            listing_before = sorted(os.listdir(workdir))
            dest = out
            rcode = tool.main([ambient.vflag(), 'writep8', src])
            if rcode:
                raise RuntimeError('p8tool returned %r' % rcode)
            with open(out, 'rb') as fh:
                data = fh.read()
            os.remove(src)
        elif entry == 'build':
            # `p8tool build cart.p8.png --lua src.p8`: the refusal has to hold on this route too (driven with code that cannot fit)
            from pico8 import tool
            src = os.path.join(workdir, 'buildsrc%d.p8' % ctx.evaluations)
            with open(src, 'wb') as fh:
                fh.write(rc.write_p8(regions, code, version=version))
            listing_before = sorted(os.listdir(workdir))
            try:
                rcode = tool.main([ambient.vflag(), 'build', dest, '--lua', src])
            except SystemExit as e:
                rcode = e.code or 1
            os.remove(src) if os.path.exists(src) else None
            if rcode:
                raise RuntimeError('p8tool build returned %r' % rcode)
            with open(dest, 'rb') as fh:
                data = fh.read()
        elif entry == 'convert':
            # .p8 -> .p8.png through the file API
            src = os.path.join(workdir, 'src%d.p8' % ctx.evaluations)
            with open(src, 'wb') as fh:
                # (a cart without code is saved without a Lua section)
                fh.write(rc.write_p8(regions, code, version=version, label=own_label, omit=('lua',) if not code else ()))
            if not code:
                ctx.feature('converted_p8_without_lua_section')
            listing_before = sorted(os.listdir(workdir))
            g1 = p8file.from_file(src)
            p8file.to_file(g1, dest)
            with open(dest, 'rb') as fh:
                data = fh.read()
        else:
            p8file.to_file(g, dest)
            with open(dest, 'rb') as fh:
                data = fh.read()
    except Exception as e:
        err = e
    ctx.monitor('writes_observed')

    if err is not None:
        ctx.monitor('refusals_observed')
        # refusal: destination must be untouched
        if entry != 'stream':
            now = open(dest, 'rb').read() if os.path.exists(dest) else None
            if now != before or sorted(os.listdir(workdir)) != listing_before:
                ctx.violation('write was refused (%r) but the destination changed' % (err,), case)
                return
        if exp == 'succeed':
            ctx.violation('cart whose code fits (raw %d bytes, est. compressed %s) was refused: %r' % (len(code), est, err),
                          case, key=classify(code, version, 'raised', err))
        else:
            ctx.feature('refused_oversize')
            if cls == 'edge_compressed':
                ctx.feature('edge_cart_refused')
            if entry == 'build':
                ctx.feature('refused_oversize_through_build')
        return

    # success path
    if exp == 'refuse':
        ctx.violation('cart whose code cannot fit (raw %d bytes, est. compressed %s) was written without error' % (
            len(code), est), case, key=classify(code, version, 'ok', None))
        return
    try:
        ref = rc.read_p8png(data, strict=False)
        if len(label_rows) != rc.CART_H or len(label_rows[0]) != rc.CART_W * 4:
            ctx.feature('label_source_of_another_size')
        if rc.png_trailing_bytes(data):
            # (an existing destination may be much longer than what replaces it: a picture of twice the size, a picture of noise)
            raise rc.FormatError('%d bytes follow the IEND chunk (the file that was at the destination before had %s bytes)' % (
                rc.png_trailing_bytes(data), len(before) if before is not None else 'no'))
    except rc.FormatError as e:
        ctx.violation('written file is not a valid cart PNG: %s' % e, case, key=classify(code, version, 'invalid', None))
        return
    ctx.monitor('png_files_validated')
    if cls == 'edge_compressed':
        ctx.feature('edge_cart_written')
    # label picture
    got_up = rc.upper_bits(ref['rows'])
    want_up = rc.upper_bits(label_rows)
    ctx.monitor('label_rows_compared', len(got_up))
    if got_up != want_up:
        y = next(i for i in range(len(got_up)) if got_up[i] != want_up[i])
        ctx.violation('label picture differs from its source in row %d (upper six bits)' % y, case,
                      key=classify(code, version, 'mismatch', None))
        return
    # memory through the reference unpacker
    for name, _ in rc.REGIONS:
        ctx.monitor('reference_region_comparisons')
        if ref[name] != regions[name]:
            d = next(i for i in range(len(regions[name])) if ref[name][i] != regions[name][i])
            ctx.violation('reference reader: region %s differs at 0x%x (%02x, wrote %02x)' % (
                name, d, ref[name][d], regions[name][d]), case, key=classify(code, version, 'mismatch', None))
            return
    if ref['version'] != version:
        ctx.violation('reference reader: version byte at 0x8000 is %d, cart has %d' % (ref['version'], version), case,
                      key=classify(code, version, 'mismatch', None))
        return
    compressed = bytes(ref['code_area'][:4]) == rc.C_HEADER
    ctx.feature('stored_compressed' if compressed else 'stored_raw')
    if compressed:
        text, problems = rc.c_decode(ref['code_area'])
        if problems:
            ctx.violation('stored :c: stream malformed: %s' % problems, case, key=classify(code, version, 'mismatch', None))
            return
    else:
        text = rc.decode_code_area(ref['code_area'], 1)
    want_code = code if entry != 'convert' else (code if code.endswith(b'\n') or True else code)
    if entry == 'convert' and not code.endswith(b'\n'):
        want_code = code + b'\n'   # the .p8 format supplies the final newline
    if entry == 'cli':
        want_code = norm_code(code) + b'\n'   # the cart went through the raw .p8.png reader first
    if entry == 'convert' and not code and text == b'':
        want_code = b''            # (no Lua section, no code: nothing supplies a line)
    if text != want_code:
        d = next((i for i in range(min(len(text), len(want_code))) if text[i] != want_code[i]), min(len(text), len(want_code)))
        ctx.violation('reference decode of the stored code differs at %d (stored %d bytes, cart %d bytes; %s)' % (
            d, len(text), len(want_code), 'compressed' if compressed else 'raw'), case,
            key=classify(code, version, 'mismatch', None))
        return
    # picotool's own reader
    try:
        g2 = P8PNGFormatter.from_file(io.BytesIO(data))
    except Exception as e:
        ctx.violation('picotool cannot read back the file it wrote: %r' % (e,), case,
                      key=classify(code, version, 'readerror', e))
        return
    ctx.monitor('own_reads_compared')
    r2 = carts.game_regions(g2)
    for name, _ in rc.REGIONS:
        if r2[name] != regions[name]:
            ctx.violation('round trip changed region %s' % name, case, key=classify(code, version, 'mismatch', None))
            return
    if g2.version != version:
        ctx.violation('round trip changed version %d -> %r' % (version, g2.version), case)
        return
    got_code = b''.join(g2.lua.to_lines())
    if not code_matches(got_code, want_code):
        ctx.violation('round trip changed the code: wrote %r..., read %r...' % (want_code[:60], got_code[:60]), case,
                      key=classify(code, version, 'mismatch', None))
        return
    if entry == 'convert':
        # and back to .p8
        back = os.path.join(workdir, 'back%d.p8' % ctx.evaluations)
        try:
            p8file.to_file(p8file.from_file(dest), back)
            r3 = rc.read_p8(open(back, 'rb').read())
        except Exception as e:
            ctx.violation('.p8.png -> .p8 conversion failed: %r' % (e,), case)
            return
        ctx.monitor('conversions_compared')
        for name, _ in rc.REGIONS:
            a, b = r3[name], regions[name]
            if name == 'music':
                a, b = rc.music_mask(a), rc.music_mask(b)
            if a != b:
                ctx.violation('.p8 -> .p8.png -> .p8 changed region %s' % name, case)
                return
        if not code_matches(r3['code'], want_code) and r3['code'] != norm_code(want_code) + b'\n':
            ctx.violation('.p8 -> .p8.png -> .p8 changed the code: %r -> %r' % (want_code[:60], r3['code'][:60]), case)
            return
        for f in (back, os.path.join(workdir, 'src%d.p8' % (ctx.evaluations))):
            if os.path.exists(f):
                os.remove(f)
    if os.path.exists(dest):
        os.remove(dest)


BASE = ['cart']     # base name of the shard's destination file (one of vf.carts.CART_BASENAMES per shard)


def run_shard(spec, ctx):
    rng = ctx.rng
    workdir = tempfile.mkdtemp(prefix='vf-c04-')
    digits = ''.join(ch for ch in str(spec.get('name', '0')) if ch.isdigit())
    BASE[0] = carts.cart_basename(int(digits or 0))
    ctx.feature('file_name:' + BASE[0])
    try:
        # oracle self-test: reference PNG encoder/decoder and stego are inverse on random data
        rows = [bytearray(carts.random_bytes(rng, rc.CART_W * 4)) for _ in range(rc.CART_H)]
        png = rc.png_encode(rc.CART_W, rc.CART_H, rows, [rng.randrange(5) for _ in range(rc.CART_H)])
        if rc.png_decode(png)[2] != rows:
            ctx.inconclusive_because('oracle self-test failed: reference PNG codec not inverse')
            return
        mem = carts.random_bytes(rng, 0x8001)
        if rc.stego_unpack(rc.stego_pack(mem, rows, rc.CART_W), rc.CART_W)[:0x8001] != mem:
            ctx.inconclusive_because('oracle self-test failed: reference stego not inverse')
            return
        ctx.monitor('oracle_selftests')
        # bystanders in the destination directory: pictures whose names resemble the cart's (an exported label, a screenshot); the
        # label source of a write is the destination itself, else the bundled blank label
        for side in (BASE[0] + '.label.png', BASE[0] + '.png', BASE[0] + '-in.label.png', 'label.png'):
            srows = [bytearray(carts.random_bytes(rng, rc.CART_W * 4)) for _ in range(rc.CART_H)]
            with open(os.path.join(workdir, side), 'wb') as fh:
                fh.write(rc.png_encode(rc.CART_W, rc.CART_H, srows))
        ctx.feature('pictures_next_to_the_destination')
        for c in spec['cases']:
            run_case(ctx, rng, c, workdir)
        if spec['cases']:
            ctx.sample({'class': spec['cases'][-1]['cls'], 'code_prefix': make_code(rng, {'cls': 'typical'})[:60]})
    finally:
        shutil.rmtree(workdir, ignore_errors=True)


def replay(case, ctx):
    workdir = tempfile.mkdtemp(prefix='vf-c04-')
    try:
        c = {'cls': case['cls'], 'code': case['code'], 'regions': case['regions'], 'version': case['version'],
             'dest_exists': case['dest_exists'], 'entry': case['entry']}
        run_case(ctx, ctx.rng, c, workdir)
    finally:
        shutil.rmtree(workdir, ignore_errors=True)


def gates(m, tier):
    f, mon = m['features'], m['monitors']
    missed = []
    for k in ('class:empty', 'class:onechar', 'class:short', 'class:typical', 'class:repetitive_small', 'class:update60_start',
              'class:update60_middle', 'class:update60_end', 'class:update60_raw', 'class:allbytes', 'pictures_next_to_the_destination', 'gfx_object_replaced', 'label_source_of_another_size', 'interlaced_label_source', 'label_source_without_alpha_channel', 'class:incompressible', 'class:near_compressed', 'class:oversize',
              'class:repetitive_big', 'class:convert', 'class:stream_entry', 'class:cli_entry', 'dest_exists', 'dest_absent'):
        if f.get(k, 0) < 1:
            missed.append('%s never generated' % k)
    if f.get('stored_raw', 0) < 10 or f.get('stored_compressed', 0) < 10:
        missed.append('storage branches raw=%d compressed=%d (<10)' % (f.get('stored_raw', 0), f.get('stored_compressed', 0)))
    if f.get('refused_oversize_through_build', 0) < 2:
        missed.append('oversize code through `p8tool build`: %d' % f.get('refused_oversize_through_build', 0))
    if f.get('refused_oversize', 0) < 1:
        missed.append('no oversize cart was refused')
    if mon.get('png_files_validated', 0) < 30 or mon.get('own_reads_compared', 0) < 30:
        missed.append('monitors saw too few files')
    if f.get('edge_cart_refused', 0) < 1 or f.get('edge_cart_written', 0) < 1:
        missed.append('carts whose compressed stream ends at the edge of the code area: written %d, refused %d' % (
            f.get('edge_cart_written', 0), f.get('edge_cart_refused', 0)))
    if f.get('code_object_of_another_version', 0) < 20 or f.get('converted_p8_without_lua_section', 0) < 1:
        missed.append('code objects of another version: %d; .p8 without Lua section converted: %d' % (
            f.get('code_object_of_another_version', 0), f.get('converted_p8_without_lua_section', 0)))
    if f.get('cart_has_label_of_its_own', 0) < 20:
        missed.append('carts with a label of their own: %d' % f.get('cart_has_label_of_its_own', 0))
    return missed
