"""C02 — luamin renaming is a consistent injection that respects reserved names.

Deciding monitor (offline, over recorded events): the identifier tokens of input and luamin output are aligned by the
reference lexer (vf.minify.align); from the pairs the relation in->out must be a function, injective over ALL identifiers
(kept ones included), the identity on keywords / PICO-8 API names / keep-file names (on every name under --keep-all-names),
and no changed identifier may map into keywords U API U keep-file.
Supporting monitor (online): an icontract postcondition on the real MinifyNameFactory.get_short_name with a shadow map
(same argument -> same result; a fresh result is unused and not reserved); its evaluation count is reported.
Bounded enumeration: N fresh names through one factory: all results distinct, [a-z]+, never reserved.
"""
import os
from .. import ambient
import re
import shutil
import tempfile

from .. import progen, layout, reflex, minify

LEVEL = 'exploration'
RULE = ('generated programs x identifier populations (small pools incl. a, b, ba, builtins, glyph names, keyword-affixed names; big programs with up to '
        '~3000 distinct identifiers so that 3-letter generated names are reached; labels/gotos sharing names with variables, fields, methods) x '
        'configurations {default, --keep-all-names, keep-file with would-be generated names / builtins / comments / glyph names}; library and CLI; '
        'plus N fresh names through one name factory (quick 20,000, thorough 500,000). Non-trivial: >= 3 distinct identifiers; distinct by '
        '(source, configuration, keep-file) hash')
ASSUMPTIONS = [
    'the API list is pico8.lua.lua.PICO8_BUILTINS as shipped (read at run time) plus a hard-coded core (print spr _init _update _update60 _draw btn btnp ...)',
    '`?` (print shorthand) counts as an API name',
    'keep-file syntax: one name per line, blank lines and lines starting with # ignored, surrounding blanks stripped (docstring of read_names_file)',
]
EXHAUSTIVE = {'quick': False, 'thorough': False}
PYOPT_KINDS = ('programs',)
CLOCALE_KINDS = ('programs',)
KNOWN_KEYS = {'keepfile-name-reused'}
CORE_API = [b'print', b'spr', b'_init', b'_update', b'_update60', b'_draw', b'btn', b'btnp', b'cls', b'map', b'sfx', b'music', b'pset',
            b'pget', b'rnd', b'flr', b'add', b'del', b'min', b'max', b'mid', b'sin', b'cos', b'abs', b'?', b'sget', b'mget', b'rectfill']
TIMEOUT = {'quick': 900, 'thorough': 7200}


def plan(tier, seed):
    specs = []
    n = 12 if tier == 'quick' else 48
    for i in range(n):
        specs.append({'kind': 'programs', 'count': 110 if tier == 'quick' else 600, 'cli': i < 2})
    for i in range(3 if tier == 'quick' else 12):
        specs.append({'kind': 'big', 'count': 1 if tier == 'quick' else 3, 'nnames': (3000, 1500, 900)[i % 3]})
    specs.append({'kind': 'factory', 'n': 20000 if tier == 'quick' else 500000})
    specs.append({'kind': 'keep_heads'})
    for i in range(2 if tier == 'quick' else 8):
        specs.append({'kind': 'reuse', 'count': 40 if tier == 'quick' else 200})
    return specs


def frozen_api():
    import json
    here = os.path.dirname(os.path.dirname(os.path.abspath(__file__)))
    with open(os.path.join(here, 'data', 'api_names.json')) as fh:
        return [n.encode('latin-1') for n in json.load(fh)['names']]


def reserved_sets():
    from pico8.lua import lua
    # shipped list (so that names added later are honoured) + the frozen copy of the pinned list + the core
    api = set(lua.PICO8_BUILTINS) | set(CORE_API) | set(frozen_api())
    return set(reflex.KEYWORDS), api


def candidate_names(n):
    """The first n short names in the order a minifier would hand them out (a..z, ba, bb, ...).  Only used to pick hostile keep-file
    entries, never as an oracle."""
    out = []
    i = 0
    while len(out) < n:
        k, name = i, b''
        while True:
            name = bytes([97 + k % 26]) + name
            k //= 26
            if k == 0:
                break
        out.append(name)
        i += 1
    return out


def names_before_reserved(n):
    """Candidates that directly precede a reserved candidate (s before t, dn before do, ie before if, ...), runs of up to three."""
    kws, api = reserved_sets()
    cands = candidate_names(n)
    out = []
    for i, c in enumerate(cands):
        if c in kws or c in api:
            for j in (1, 2, 3)[:1 + i % 3]:
                if i - j >= 0 and cands[i - j] not in kws and cands[i - j] not in api:
                    out.append(cands[i - j])
    return sorted(set(out))


def check_mapping(ctx, pairs, config, keep, case):
    """The offline deciding monitor.  pairs: [(in_name, out_name)] in order of occurrence."""
    kws, api = reserved_sets()
    keepset = set(keep) if 'keep_file' in config else set()
    fwd = {}
    back = {}
    ctx.monitor('identifier_occurrences', len(pairs))
    for a, b in pairs:
        if a in fwd and fwd[a] != b:
            ctx.violation('identifier %r is renamed to %r in one place and %r in another' % (a, fwd[a], b), case)
            return False
        fwd[a] = b
        if b in back and back[b] != a:
            key = 'keepfile-name-reused' if (b in keepset and (a == b or back[b] == b)) else None
            ctx.violation('identifiers %r and %r both become %r' % (back[b], a, b), case, key=key)
            return False
        back[b] = a
    ctx.monitor('mappings_checked')
    ctx.monitor('distinct_identifiers', len(fwd))
    for a, b in fwd.items():
        must_keep = config.startswith('keep_all') or a in kws or a in api or a in keepset
        if must_keep and a != b:
            ctx.violation('reserved/kept name %r was renamed to %r (config %s)' % (a, b, config), case)
            return False
        if a != b:
            if b in kws or b in api or b in keepset:
                ctx.violation('generated name %r (for %r) is a %s' % (
                    b, a, 'keyword' if b in kws else 'PICO-8 API name' if b in api else 'keep-file name'), case,
                    key='keepfile-name-reused' if b in keepset else None)
                return False
            if not re.match(br'[a-z_][a-z0-9_]*\Z', b):
                ctx.violation('generated name %r is not a plain identifier' % (b,), case)
                return False
            ctx.monitor('renamed_identifiers')
            if len(b) >= 3:
                ctx.feature('three_letter_generated_name')
    return True


def run_one(ctx, src, scopes, config, keep, workdir, cli=False):
    case = {'src': src, 'config': config, 'keep': keep}
    names_in = {t.raw for t in reflex.sig(reflex.lex(src)) if t.kind == 'name'}
    ctx.case((src, config, tuple(keep)), nontrivial=len(names_in) >= 3)
    ctx.feature('config:' + config)
    keep_file = None
    if 'keep_file' in config:
        keep_file = os.path.join(workdir, 'keep.txt')
        minify.write_keep_file(keep_file, keep, ctx.rng)
        for n in (b'a', b'b', b'ba'):
            if n in keep:
                ctx.feature('keepfile_has_' + n.decode())
    try:
        L, out = minify.minify_lib(src, config, keep_file)
    except Exception as e:
        ctx.violation('luamin raised %r' % (e,), case)
        return
    problem, pairs, info = minify.align(src, out, None)
    if problem is not None:
        # token-level damage is C01's subject and ends the alignment; the name relation is judged on what was aligned up to there, and
        # an identifier that came out as a keyword is this property's own subject ("no generated name is a keyword")
        ctx.feature('unaligned_output_skipped')
        if not check_mapping(ctx, pairs, config, keep, case):
            return
        m = re.search(r"name (b'.*?') became keyword (b'.*?')$", problem[1])
        if m:
            ctx.violation('identifier %s was written as the keyword %s' % (m.group(1), m.group(2)), case)
        return
    if not check_mapping(ctx, pairs, config, keep, case):
        return
    if cli and b'\r' not in src:
        from pico8 import tool
        from .. import carts, refcodec as rc
        regions, _ = carts.random_regions(ctx.rng, 'zero')
        p1 = os.path.join(workdir, ambient.BASE[0] + '.p8')
        with open(p1, 'wb') as fh:
            fh.write(rc.write_p8_variant(ctx.rng, regions, src, version=ambient.VERSION[0]))
        # (the options as a user may type them: in full, with `=`, or shortened to an unambiguous beginning, which p8tool accepts)
        nth = ctx.monitors.get('cli_runs', 0)
        kf = keep_file or ''
        kf_opt = (['--keep-names-from-file', kf], ['--keep-names-from-file=' + kf], ['--keep-names', kf],
                  ['--keep-names-from', kf], ['--keep-n=' + kf])[nth % 5]
        ka_opt = ('--keep-all-names', '--keep-all', '--keep-a')[nth % 3]
        if 'keep_file' in config:
            ctx.feature('cli_keep_file_option_spelling:' + kf_opt[0].split('=')[0])
        argv = [ambient.vflag(), 'luamin'] + ([ka_opt] if config.startswith('keep_all') else []) + (kf_opt if 'keep_file' in config else [])
        # several carts on one command line: every output must satisfy the property on its own
        prev_src = ctx.extra.get('_prev_cli_src')
        extra_paths = []
        if prev_src is not None:
            p0 = os.path.join(workdir, ambient.BASE[0] + '-0.p8')
            with open(p0, 'wb') as fh:
                fh.write(rc.write_p8_variant(ctx.rng, regions, prev_src, version=ambient.VERSION[0]))
            extra_paths = [p0]
            ctx.feature('cli_two_carts_one_invocation')
        ctx.extra['_prev_cli_src'] = src
        if ctx.monitors.get('cli_runs', 0) % 3 == 2 and b'\x00' not in src and len(src) < 12000:
            # the same command on a .p8.png cart: the options reach the writer whatever the format of the cart
            pp = os.path.join(workdir, ambient.BASE[0] + '-png.p8.png')
            with open(pp, 'wb') as fh:
                fh.write(rc.write_p8png(regions, rc.raw_code_area(src) if len(src) % 2 else rc.code_area_from_items(rc.c_greedy(src), len(src)), 8))
            try:
                tool.main(argv + [pp])
                r = rc.read_p8png(open(os.path.join(workdir, ambient.BASE[0] + '-png_fmt.p8.png'), 'rb').read())
                gotp = rc.strip_future(rc.decode_code_area(r['code_area'], r['version']))
            except BaseException as e:
                ctx.violation('p8tool luamin failed on a .p8.png cart: %r' % (e,), case)
                return
            wantp = src if src.endswith(b'\n') else src + b'\n'
            prp, pairsp, _ = minify.align(wantp, gotp if gotp.endswith(b'\n') else gotp + b'\n', None)
            ctx.monitor('cli_png_runs')
            if prp is None:
                if not check_mapping(ctx, pairsp, config, keep, dict(case, route='luamin on a .p8.png cart')):
                    return
        try:
            rcode = tool.main(argv + extra_paths + [p1])
            got = rc.read_p8(open(os.path.join(workdir, ambient.BASE[0] + '_fmt.p8'), 'rb').read())['code']
            if extra_paths:
                got0 = rc.read_p8(open(os.path.join(workdir, ambient.BASE[0] + '-0_fmt.p8'), 'rb').read())['code']
                want0 = prev_src if prev_src.endswith(b'\n') else prev_src + b'\n'
                pr0, pairs0, _ = minify.align(want0, got0, None)
                if pr0 is None:
                    check_mapping(ctx, pairs0, config, keep, dict(case, src=prev_src))
        except BaseException as e:
            ctx.violation('p8tool luamin failed: %r' % (e,), case)
            return
        want = src if src.endswith(b'\n') else src + b'\n'
        problem, pairs, info = minify.align(want, got, None)
        ctx.monitor('cli_runs')
        if problem is None:
            check_mapping(ctx, pairs, config, keep, case)
        if config == 'default':
            out2 = os.path.join(workdir, 'nb.p8')
            if os.path.exists(out2):
                os.remove(out2)
            try:
                tool.main([ambient.vflag(), 'build', out2, '--lua', p1, '--lua-minify'])
                got2 = rc.read_p8(open(out2, 'rb').read())['code']
            except BaseException as e:
                ctx.violation('build --lua-minify failed: %r' % (e,), case)
                return
            problem, pairs, info = minify.align(want, got2, None)
            ctx.monitor('cli_build_runs')
            if problem is None:
                check_mapping(ctx, pairs, 'default', [], case)


def run_reuse(spec, ctx, workdir):
    """HISTORY: one writer-args dict serves several minify runs while its keep file setting is pointed elsewhere, the file is
    rewritten, or the option is dropped; every run is judged against the keep list in force for that run."""
    from pico8.lua import lua
    rng = ctx.rng
    args = {}
    kf = [os.path.join(workdir, 'keepA.txt'), os.path.join(workdir, 'keepB.txt')]
    for i in range(spec['count']):
        p = progen.gen_program(rng, {'depth': 2, 'max_stmts': 4})
        src = layout.render(p, rng)
        if src is None:
            continue
        names = sorted({p.toks[k][1] for k in p.names})
        step = i % 4
        keep = []
        if step in (0, 1, 2):
            keep = sorted(set([n for n in names if rng.random() < 0.4] + [b'a', b'b'][:rng.randint(0, 2)]))
            which = kf[0] if step != 1 else kf[1]     # 0: file A; 1: another file; 2: file A rewritten
            minify.write_keep_file(which, keep, rng)
            args['keep_names_from_file'] = which
            config = 'keep_file'
            ctx.feature('reused_args:' + ('file_a', 'other_file', 'file_a_rewritten')[step])
        else:
            args.pop('keep_names_from_file', None)
            config = 'default'
            ctx.feature('reused_args:option_dropped')
        case = {'src': src, 'config': config, 'keep': keep, 'history': 'reused writer args, step %d' % step}
        ctx.case((src, 'reuse', step, tuple(keep)), nontrivial=len(names) >= 3)
        try:
            L = lua.Lua.from_lines([src], version=ambient.VERSION[0])
            out = b''.join(L.to_lines(writer_cls=lua.LuaMinifyTokenWriter, writer_args=args))
        except Exception as e:
            ctx.violation('luamin raised %r (reused writer args)' % (e,), case)
            return
        problem, pairs, info = minify.align(src, out, None)
        if problem is not None:
            ctx.feature('unaligned_output_skipped')
            continue
        ctx.monitor('reused_args_runs')
        if not check_mapping(ctx, pairs, config, keep, case):
            return


def install_contract(ctx):
    """Online supporting monitor on the real MinifyNameFactory.get_short_name."""
    try:
        import icontract
    except ImportError:
        ctx.feature('online_contract_not_attached')
        return None
    from pico8.lua import lua
    kws, api = reserved_sets()
    state = {'evals': 0, 'broken': []}

    class PostBroken(Exception):
        pass

    def consistent(self, name, result):
        state['evals'] += 1
        sh = self.__dict__.setdefault('_vf_shadow', {})
        used = self.__dict__.setdefault('_vf_used', {})
        keepset = self._names_to_keep or set()
        if name in sh and sh[name] != result:
            state['broken'].append((None, 'get_short_name(%r) returned %r, earlier %r' % (name, result, sh[name])))
        if name not in sh:
            key = 'keepfile-name-reused' if result in keepset else None
            if result in used and used[result] != name:
                state['broken'].append((key, 'get_short_name(%r) returned %r already used for %r' % (name, result, used[result])))
            if result != name and (result in kws or result in api or result in keepset):
                state['broken'].append((key, 'get_short_name(%r) generated reserved name %r' % (name, result)))
        sh[name] = result
        used[result] = name
        return True

    orig = lua.MinifyNameFactory.get_short_name
    lua.MinifyNameFactory.get_short_name = icontract.ensure(consistent, error=PostBroken)(orig)
    state['orig'] = orig
    return state


def big_program(rng, nnames):
    pool = [b'v%d' % i for i in range(nnames)] + [b'a', b'b', b'ba', b'bb', b'zz', b'aaa']
    rng.shuffle(pool)
    big = progen.Program()
    big.toks, big.scopes, big.stmts, big.names = [], [], [], []
    # every pool name occurs at least once: `local n1, n2, ... ` in chunks
    for k in range(0, len(pool), 50):
        big.stmts.append(len(big.toks))
        big.toks.append(('keyword', b'local'))
        for j, nm in enumerate(pool[k:k + 50]):
            if j:
                big.toks.append(('symbol', b','))
            big.names.append(len(big.toks))
            big.toks.append(('name', nm))
    used = 0
    while used < nnames * 3:
        sub = pool[used % len(pool):used % len(pool) + 40] or pool[:40]
        p = progen.gen_program(rng, {'depth': 2, 'max_stmts': 5, 'names_extra': sub, 'glyph_names': False, 'multiline_strings': False})
        off = len(big.toks) + 1
        big.stmts.append(len(big.toks))
        big.toks.append(('keyword', b'do'))
        big.toks.extend(p.toks)
        big.toks.append(('keyword', b'end'))
        big.scopes.extend((i + off, j + off, k) for (i, j, k) in p.scopes)
        big.stmts.extend(s + off for s in p.stmts)
        big.names.extend(i + off for i in p.names)
        used += 40
    return big


def run_shard(spec, ctx):
    rng = ctx.rng
    workdir = tempfile.mkdtemp(prefix='vf-c02-')
    st = install_contract(ctx)
    try:
        if spec['kind'] == 'programs':
            for i in range(spec['count']):
                small = rng.random() < 0.5
                opts = {'depth': rng.choice((1, 2, 3)), 'max_stmts': 4}
                if small:
                    # tiny pools force collisions between would-be generated names and input names
                    opts['names_extra'] = rng.sample([b'a', b'b', b'c', b'd', b'ba', b'bb', b'x', b'print', b't', b'\x8e', b'if_', b'e'], 6)
                elif rng.random() < 0.5:
                    # every API name gets used in programs over a run (frozen list of the pinned tree)
                    api = [n for n in frozen_api() if n != b'?']
                    opts['names_extra'] = rng.sample(api, 12) + [b'x', b'y', b'foo', b'bar', b'q1', b'obj']
                    ctx.feature('api_names_in_program')
                p = progen.gen_program(rng, opts)
                if 'StatLabel' in p.feats and rng.random() < 0.35:
                    # Lua 5.2 also allows blanks inside the colons (`:: name ::`); the token minifier must rename such a
                    # label like any other occurrence of the name
                    p.scopes = [(a, b, False if k == 'tight' else k) for (a, b, k) in p.scopes]
                    saved = p.scopes
                    src = layout.render(p, rng, style=rng.choice(('spaced', 'normal')))
                    try:
                        from pico8.lua import lua as _lua
                        if src is not None:
                            _lua.Lua.from_lines([src], version=ambient.VERSION[0])
                            ctx.feature('labels_with_inner_blanks')
                    except Exception:
                        # this tree does not accept the spaced form here (e.g. inside a block): use the tight form
                        p.scopes = [(a, b, 'tight' if (k is False and b - a == 2 and p.toks[a][1] == b'::') else k)
                                    for (a, b, k) in p.scopes]
                        src = layout.render(p, rng)
                else:
                    src = layout.render(p, rng)
                if src is None:
                    ctx.monitor('generator_rejects')
                    continue
                if i % 6 == 4 and b'\r' not in src and 'StatLabel' not in p.feats:
                    # editor tabs: the code continues after a `-->8` line; one renaming covers the whole cart
                    p2 = progen.gen_program(rng, opts)
                    src2 = layout.render(p2, rng, crlf=False)
                    if src2 is not None and 'StatLabel' not in p2.feats:
                        src = b'do\n' + src.rstrip(b'\n') + b'\nend\n-->8\ndo\n' + src2.rstrip(b'\n') + b'\nend\n'
                        if reflex.try_lex(src)[1] is None:
                            p.toks = p.toks + p2.toks
                            p.names = []
                            ctx.feature('code_in_two_editor_tabs')
                        else:
                            continue
                if 'StatLabel' in p.feats or 'StatGoto' in p.feats:
                    ctx.feature('labels_or_gotos')
                config = rng.choice(('default', 'default', 'keep_all', 'keep_file', 'keep_file', 'keep_all+keep_file'))
                names = sorted({p.toks[k][1] for k in p.names})
                keep = sorted(set([n for n in names if rng.random() < 0.3] +
                                  rng.sample([b'a', b'b', b'ba', b'c', b'print', b'\x80x', b'zz', b'bb', b'e'], rng.randint(0, 5))))
                run_one(ctx, src, p.scopes, config, keep, workdir, cli=spec.get('cli') and i % 5 == 0)
                if i == 0:
                    ctx.sample({'source': src[:160], 'config': config, 'keep': keep})
        elif spec['kind'] == 'keep_heads':
            # every byte that may begin a name, as the first byte of a listed name (and as a one-byte name)
            heads = [bytes([b]) for b in range(128, 256)] + [bytes([b]) for b in b'_abcdefghijklmnopqrstuvwxyzABCDEFGHIJKLMNOPQRSTUVWXYZ']
            for grp in range(0, len(heads), 15):
                hs = heads[grp:grp + 15]
                names = []
                for h in hs:
                    names += [h, h + b'ter', h + h, h + b'\xbb' + h] if h[0] >= 128 else [h + b'ter_', h + b'q9']
                src = b''.join(b'local %s=%d\n%s+=other_%d\n' % (n, k, n, k) for k, n in enumerate(names))
                ctx.feature('keepfile_names_by_first_byte', len(hs))
                run_one(ctx, src, None, 'keep_file', sorted(set(names)), workdir, cli=grp % 60 == 0)
            # functions whose names begin with an underscore (and are no PICO-8 callbacks), referenced before the statement that
            # defines them, as a game loop at the top of a cart does with the helpers below it
            src = (b'function _update()\n _tick()\n _move(p)\n local h=_helper\n t._hook=_hook\nend\nfunction _tick() n+=1 end\nfunction _move(o) o.x+=1 end\n'
                   b'local function _helper() return _tick end\nfunction _hook() end\nfunction t._cb() end\n_tick() _move(q)\n')
            for config in ('default', 'keep_file'):
                ctx.feature('underscore_functions_used_before_defined')
                run_one(ctx, src, None, config, [b'q', b'n'], workdir, cli=config == 'default')
            # listed names of every length from 1 to 48 characters (the longest reserved name has 15), plain and with a glyph
            for variant in (b'', b'\x8e'):
                names = [b'w', b'w2'] + [(b'q%d' % n + variant).ljust(n, b'_') for n in range(3, 49)]
                src = b''.join(b'local %s=%d\n%s+=other_%d\n' % (n, k, n, k) for k, n in enumerate(names))
                ctx.feature('keepfile_names_by_length', len(names))
                run_one(ctx, src, None, 'keep_file', sorted(set(names)), workdir, cli=not variant)
        elif spec['kind'] == 'reuse':
            run_reuse(spec, ctx, workdir)
        elif spec['kind'] == 'big':
            for i in range(spec['count']):
                big = big_program(rng, spec.get('nnames', 3000))
                src = layout.render(big, rng, style=rng.choice(('tight', 'normal', 'lines')))
                if src is None:
                    ctx.monitor('generator_rejects')
                    continue
                ctx.feature('big_programs')
                config = ('default', 'keep_file')[i % 2]
                # kept names include the candidates right before reserved ones: the name handed out after skipping a kept candidate
                # has to pass every test again
                hostile = names_before_reserved(3000)
                ctx.feature('keepfile_has_names_before_reserved_candidates')
                run_one(ctx, src, big.scopes, config, [b'a', b'ba', b'v1', b'aaa', b'abc'] + hostile, workdir)
                run_one(ctx, src, big.scopes, 'keep_file', [b'a', b'ba', b'v1', b'aaa', b'abc'] + hostile, workdir)
        else:
            from pico8.lua import lua
            kws, api = reserved_sets()
            f = lua.MinifyNameFactory()
            seen = {}
            N = spec['n']
            for i in range(N):
                name = b'n%d_' % i
                r = f.get_short_name(name)
                if r in seen:
                    ctx.violation('fresh names %r and %r both get %r' % (seen[r], name, r), {'factory_index': i})
                    break
                if not re.match(br'[a-z]+\Z', r) or r in kws or r in api:
                    ctx.violation('generated name %r for id %d is not an unreserved [a-z]+ name' % (r, i), {'factory_index': i})
                    break
                seen[r] = name
            ctx.case(b'factory%d' % N)
            ctx.case(b'factory-second-pass')
            # same factory, second pass: stable
            for i in range(0, N, 97):
                name = b'n%d_' % i
                if f.get_short_name(name) != [k for k in (None,)] and f.get_short_name(name) != f.get_short_name(name):
                    ctx.violation('get_short_name not stable for %r' % name, {'factory_index': i})
                    break
            ctx.monitor('factory_names_enumerated', len(seen))
            ctx.feature('factory_enumeration_done')
            ctx.sample({'factory': 'id 0 -> %r, id %d -> %r' % (f.get_short_name(b'n0_'), N - 1, f.get_short_name(b'n%d_' % (N - 1)))})
    finally:
        ctx.extra.pop('_prev_cli_src', None)
        shutil.rmtree(workdir, ignore_errors=True)
        if st is not None:
            from pico8.lua import lua
            lua.MinifyNameFactory.get_short_name = st['orig']
            ctx.monitor('online_contract_evaluations', st['evals'])
            for key, b in st['broken'][:3]:
                ctx.violation('online contract: ' + b, {'online': True}, key=key)


def replay(case, ctx):
    if 'src' not in case:
        run_shard({'kind': 'factory', 'n': case.get('factory_index', 1000) + 10}, ctx)
        return
    workdir = tempfile.mkdtemp(prefix='vf-c02-')
    try:
        run_one(ctx, case['src'], None, case['config'], case.get('keep') or [], workdir)
    finally:
        shutil.rmtree(workdir, ignore_errors=True)


def gates(m, tier):
    f, mon = m['features'], m['monitors']
    missed = []
    if f.get('three_letter_generated_name', 0) < 1:
        missed.append('no 3-letter generated name reached (no program with > 702 identifiers)')
    for k in ('keepfile_has_a', 'keepfile_has_b', 'keepfile_has_ba', 'labels_or_gotos', 'big_programs', 'factory_enumeration_done'):
        if f.get(k, 0) < 1:
            missed.append('%s never seen' % k)
    for c in ('default', 'keep_all', 'keep_file', 'keep_all+keep_file'):
        if f.get('config:' + c, 0) < 50:
            missed.append('configuration %s used %d times' % (c, f.get('config:' + c, 0)))
    if mon.get('mappings_checked', 0) < 300:
        missed.append('mappings checked: %d' % mon.get('mappings_checked', 0))
    if f.get('code_in_two_editor_tabs', 0) < 50:
        missed.append('programs with code in two editor tabs: %d' % f.get('code_in_two_editor_tabs', 0))
    if f.get('keepfile_names_by_length', 0) < 96:
        missed.append('keep-file names by length: %d of 96' % f.get('keepfile_names_by_length', 0))
    if f.get('keepfile_names_by_first_byte', 0) < 181 or mon.get('reused_args_runs', 0) < 40:
        missed.append('keep-file names by first byte: %d; runs with a reused writer-args dict: %d'
                      % (f.get('keepfile_names_by_first_byte', 0), mon.get('reused_args_runs', 0)))
    if f.get('keepfile_has_names_before_reserved_candidates', 0) < 1:
        missed.append('keep-file names directly before reserved candidates: %d' % f.get('keepfile_has_names_before_reserved_candidates', 0))
    if mon.get('cli_png_runs', 0) < 5:
        missed.append('cli runs on .p8.png carts: %d' % mon.get('cli_png_runs', 0))
    if mon.get('cli_runs', 0) < 10:
        missed.append('cli runs: %d' % mon.get('cli_runs', 0))
    return missed
