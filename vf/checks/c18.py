"""C18 — raw cart-memory writes land at the addressed bytes and only there.

History monitor: a shadow bytearray(0x4300) (vf.memmodel.Shadow) is updated in lock-step with
Game.write_cart_data; after EVERY write the five regions (read through to_bytes()) are compared
byte-for-byte with the shadow, each region's length with the memory map, and an over-long write
must raise and change nothing.
"""
from .. import carts
from ..memmodel import Shadow
from ..refcodec import REGIONS, REGION_SIZES, DATA_END

LEVEL = 'exploration'
RULE = ('all (start,end) pairs with both ends within +-2 of the six region boundaries (complete), random pairs, '
        'multi-region spans, rejected over-long writes, and sequences of 10-60 writes on one cart, each with random data '
        'over random prior contents; a case is one write; non-trivial if it writes >= 1 byte or must be rejected; '
        'distinct by (start, length, data hash, prior hash)')
ASSUMPTIONS = [
    'start addresses are 0..0x42ff as the statement says (start 0x4300+ only with data that must be rejected)',
    'zero-length writes inside the range are driven too and must change nothing',
]
EXHAUSTIVE = {'quick': False, 'thorough': False}
PYOPT_KINDS = ('history',)
BOUNDS = [0, 0x2000, 0x3000, 0x3100, 0x3200, 0x4300]
KNOWN_KEYS = {'end-on-region-boundary'}


def boundary_pairs():
    near = sorted({b + d for b in BOUNDS for d in (-2, -1, 0, 1, 2) if 0 <= b + d <= DATA_END})
    return [(s, e) for s in near for e in near if s <= e and s <= 0x42ff]


def plan(tier, seed):
    pairs = boundary_pairs()
    specs = []
    reps = 1 if tier == 'quick' else 6
    nsh = 4
    for r in range(reps):
        for i in range(nsh):
            specs.append({'kind': 'pairs', 'slice': [i, nsh], 'rep': r})
    for i in range(4 if tier == 'quick' else 16):
        specs.append({'kind': 'random', 'count': 250 if tier == 'quick' else 1500})
    for i in range(4 if tier == 'quick' else 16):
        specs.append({'kind': 'history', 'count': 12 if tier == 'quick' else 60})
    specs.append({'kind': 'reject', 'count': 120 if tier == 'quick' else 1200})
    specs.append({'kind': 'reject_grid'})
    for i in range(2 if tier == 'quick' else 8):
        specs.append({'kind': 'aliasing', 'count': 10 if tier == 'quick' else 50})
    return specs


def classify(start, n):
    """Mechanism key for a failing write, or None."""
    end = start + n
    if n > 0 and end in (0x2000, 0x3000, 0x3100, 0x3200, 0x4300):
        return 'end-on-region-boundary'
    return None


def _bclass(a):
    for b in BOUNDS:
        if abs(a - b) <= 2:
            return '%04x%+d' % (b, a - b)
    return 'interior'


def bystanders(g):
    """What a cart holds besides the five regions: the label image, the code, the version number."""
    lab = getattr(g, 'label', None)
    return {'label': bytes(lab.to_bytes()) if lab is not None else None, 'code': b''.join(g.lua.to_lines()), 'version': g.version}


def _new_game(rng):
    regions, mode = carts.random_regions(rng)
    r = rng.random()
    if r < 0.25:
        from pico8.game.game import Game
        # (a cart made by the library's own constructor has a label of its own)
        g = Game.make_empty_game()
        g.write_cart_data(b''.join(regions[n] for n, _ in REGIONS), 0)
    else:
        g = carts.make_game(regions, code=b'x=1\n-- code\n', label=carts.random_bytes(rng, 8192) if r < 0.7 else None)
    return g, Shadow(b''.join(regions[n] for n, _ in REGIONS))


def swap_section(g, rng):
    from pico8.gfx.gfx import Gfx
    from pico8.gff.gff import Gff
    from pico8.map.map import Map
    from pico8.sfx.sfx import Sfx
    from pico8.music.music import Music
    name = rng.choice(('gfx', 'gfx_alone', 'gff', 'map', 'sfx', 'music'))
    if name == 'gfx_alone':
        # only the sprite sheet is assigned (what `build --gfx` does): the map keeps the Gfx object it was created with, the cart's
        # sprite sheet is the object game.gfx names now
        g.gfx = Gfx.from_bytes(bytes(g.gfx.to_bytes()), version=8)
        return
    cur = bytes(getattr(g, name).to_bytes())
    if name == 'gfx':
        g.gfx = Gfx.from_bytes(cur, version=8)
        g.map = Map.from_bytes(bytes(g.map.to_bytes()), version=8, gfx=g.gfx)
    elif name == 'map':
        g.map = Map.from_bytes(cur, version=8, gfx=g.gfx)
    else:
        setattr(g, name, {'gff': Gff, 'sfx': Sfx, 'music': Music}[name].from_bytes(cur, version=8))


def do_write(ctx, g, sh, start, data, tag):
    """Apply one write to game and shadow; compare.  Returns False if the game is now corrupt."""
    n = len(data)
    case = {'start': start, 'data': bytes(data), 'prior': bytes(sh.mem), 'tag': tag}
    before = carts.game_memory(g)
    others = bystanders(g)
    ctx.feature('cart_with_label' if others['label'] is not None else 'cart_without_label')
    ctx.case((start, n, bytes(data), before), nontrivial=(n > 0))
    ctx.feature('start@' + _bclass(start))
    ctx.feature('end@' + _bclass(start + n))
    spans = sum(1 for _, (a, b) in REGIONS if start < b and start + n > a)
    ctx.feature('regions_spanned_%d' % spans)
    must_reject = start + n > DATA_END
    try:
        import warnings
        strict = (start + 2 * n) % 5 == 0
        if strict:
            # a process that turns warnings into errors (python -W error, a test runner's filterwarnings=error): a valid write has
            # nothing to warn about, and a refused one raises its own error
            warnings.simplefilter('error')
            ctx.feature('writes_with_warnings_as_errors')
        # the data is a byte string in any of the usual guises; the address is given by position, by keyword, or left out when it is 0
        k = (start + n) % 6
        if isinstance(data, bytearray) or tag in ('whole-region-bytearray', 'data-from-live-section', 'bytearray'):
            arg = data        # (the caller's own object, as it is: what the caller does with it afterwards is part of the history)
        else:
            arg = (bytes(data), bytearray(data), memoryview(bytes(data)))[k % 3]
        ctx.feature('data_type:' + type(arg).__name__)
        if start == 0 and k >= 3:
            g.write_cart_data(arg)
            ctx.feature('address_argument:left_out')
        elif k >= 3:
            g.write_cart_data(arg, start_addr=start)
            ctx.feature('address_argument:keyword')
        else:
            g.write_cart_data(arg, start)
            ctx.feature('address_argument:positional')
        raised = None
    except Exception as e:
        raised = e
    finally:
        if strict:
            warnings.resetwarnings()
    after_regions = carts.game_regions(g)
    after = b''.join(after_regions[x] for x, _ in REGIONS)
    ctx.monitor('writes_observed')
    now = bystanders(g)
    ctx.monitor('bystander_comparisons')
    for k in ('label', 'code', 'version'):
        if now[k] != others[k]:
            ctx.violation('writing %d bytes at 0x%x changed the cart\'s %s, which no cart address names' % (n, start, k), case)
            return False
    if must_reject:
        ctx.monitor('rejections_expected')
        if raised is None:
            ctx.violation('write of %d bytes at 0x%x passes 0x4300 but was accepted' % (n, start), case)
            return False
        if after != before:
            ctx.violation('rejected write at 0x%x modified memory' % start, case)
            return False
        return True
    if raised is not None:
        ctx.violation('in-range write of %d bytes at 0x%x raised %r' % (n, start, raised), case,
                      key=classify(start, n))
        return False
    sh.write(data, start)
    ok = True
    for name, _ in REGIONS:
        ctx.monitor('region_comparisons')
        got = after_regions[name]
        if len(got) != REGION_SIZES[name]:
            ctx.violation('after writing %d bytes at 0x%x region %s has %d bytes (must stay %d)' % (
                n, start, name, len(got), REGION_SIZES[name]), case, key=classify(start, n))
            ok = False
            break
        exp = sh.region(name)
        if got != exp:
            d = next(i for i in range(len(got)) if got[i] != exp[i])
            ctx.violation('after writing %d bytes at 0x%x region %s differs from model at offset 0x%x: got %02x want %02x' % (
                n, start, name, d, got[d], exp[d]), case, key=classify(start, n))
            ok = False
            break
    return ok


def still_as_model(ctx, g, sh, what, case):
    """The cart's regions against its shadow at a moment when no write to this cart has happened since the last comparison."""
    regs = carts.game_regions(g)
    ctx.monitor('quiescent_comparisons')
    for name, _ in REGIONS:
        if regs[name] != sh.region(name):
            got, exp = regs[name], sh.region(name)
            d = next((i for i in range(min(len(got), len(exp))) if got[i] != exp[i]), min(len(got), len(exp)))
            ctx.violation('%s: region %s offset 0x%x is %s, was written as %02x (region length %d)' % (
                what, name, d, '%02x' % got[d] if d < len(got) else 'missing', exp[d] if d < len(exp) else -1, len(got)), case)
            return False
    return True


def cart_from_p8(rng, omit):
    """A cart loaded from a reference-written .p8 that leaves out the sections in `omit` -> (game, shadow)."""
    import io
    from pico8.game.formatter.p8 import P8Formatter
    from pico8.game.game import Game
    from .. import refcodec as rc
    regions, _ = carts.random_regions(rng)
    regions = dict(regions)
    regions['music'] = rc.music_mask(regions['music'])
    empty = carts.game_regions(Game.make_empty_game())
    for n in omit:
        regions[n] = empty[n]
    # the other sections are written short (trailing default rows left out, as current PICO-8 does); the blank line the format has
    # before __gff__ then sits inside a short section
    rowbytes = {'gfx': 64, 'gff': 128, 'map': 128, 'music': 4, 'sfx': 68}
    trim = tuple(n for n in rowbytes if n not in omit)
    for n in trim:
        nrows = len(regions[n]) // rowbytes[n]
        keep = max(1, rng.randrange(nrows)) * rowbytes[n]
        regions[n] = bytes(regions[n][:keep]) + bytes(empty[n][keep:])
    g = P8Formatter.from_file(io.BytesIO(rc.write_p8(regions, b'x=1\n', version=8, omit=omit, trim=trim,
                                                     label=carts.random_bytes(rng, 8192) if rng.random() < 0.5 else None)))
    return g, Shadow(b''.join(regions[n] for n, _ in REGIONS))


def run_aliasing(ctx, rng, spec):
    """HISTORIES with more than one holder of the bytes: the caller keeps (and refills) the buffer it passed in, the data comes from a
    live section of this or another cart, two carts come from .p8 files that leave out the same sections.  After every step every
    cart must still hold exactly what was written into IT."""
    region_of = {n: (a, b) for n, (a, b) in REGIONS}
    for h in range(spec['count']):
        if h % 2:
            omit = tuple(n for n in ('map', 'gff', 'sfx', 'music', 'gfx') if rng.random() < 0.5) or ('map',)
            ga, sa = cart_from_p8(rng, omit)
            gb, sb = cart_from_p8(rng, omit)
            ctx.feature('two_carts_from_p8_omitting_same_sections')
            ctx.feature('carts_from_p8_with_short_sections')
        else:
            ga, sa = _new_game(rng)
            gb, sb = _new_game(rng)
        scratch = {}
        case0 = {'start': 0, 'data': b'', 'prior': bytes(sa.mem), 'tag': 'aliasing'}
        if not (still_as_model(ctx, ga, sa, 'freshly made cart', case0) and still_as_model(ctx, gb, sb, 'freshly made second cart', case0)):
            return
        for st in range(rng.randint(8, 30)):
            g, sh, other, osh = (ga, sa, gb, sb) if rng.random() < 0.6 else (gb, sb, ga, sa)
            k = rng.randrange(5)
            if k == 0:
                # a whole region from the caller's scratch bytearray, which the caller refills afterwards (one buffer per size)
                name = rng.choice([n for n, _ in REGIONS])
                a, b = region_of[name]
                buf = scratch.setdefault(b - a, bytearray(b - a))
                buf[:] = carts.random_bytes(rng, b - a)
                ok = do_write(ctx, g, sh, a, buf, 'whole-region-bytearray')
                buf[:] = carts.random_bytes(rng, b - a)
                ctx.feature('whole_region_from_reused_bytearray')
                what = 'after the caller refilled the bytearray it had passed to a whole-region write (%s)' % name
            elif k == 1:
                # the data is what another section's to_bytes() hands out (gff <-> music have the same size), same or other cart
                src_name, dst_name = rng.choice((('gff', 'music'), ('music', 'gff'), ('gfx', 'gfx'), ('map', 'map'), ('sfx', 'sfx')))
                src_cart = g if src_name != dst_name and rng.random() < 0.5 else other
                data = getattr(src_cart, src_name).to_bytes()
                ok = do_write(ctx, g, sh, region_of[dst_name][0], data, 'data-from-live-section')
                ctx.feature('data_from_live_section')
                what = 'after a whole-region write whose data was %s.to_bytes() of %s cart' % (src_name, 'the same' if src_cart is g else 'another')
            elif k == 2:
                s = rng.randrange(0, DATA_END)
                n = min(rng.randint(1, 300), DATA_END - s)
                data = bytearray(carts.random_bytes(rng, n))
                ok = do_write(ctx, g, sh, s, data, 'bytearray')
                data[:] = bytes(n)
                what = 'after the caller zeroed the bytearray it had passed'
            elif k == 3:
                name = rng.choice([n for n, _ in REGIONS])
                a, b = region_of[name]
                ok = do_write(ctx, g, sh, a, carts.random_bytes(rng, b - a), 'whole-region-bytes')
                what = 'after a whole-region write (%s)' % name
            else:
                s = rng.randrange(0, DATA_END)
                n = min(rng.randint(0, 5000), DATA_END - s)
                ok = do_write(ctx, g, sh, s, carts.random_bytes(rng, n), 'plain')
                what = 'after a plain write'
            if not ok:
                return
            case = {'start': 0, 'data': b'', 'prior': bytes(sh.mem), 'tag': 'aliasing', 'history': what}
            if not still_as_model(ctx, g, sh, what + ', the written cart', case):
                return
            if not still_as_model(ctx, other, osh, what + ', ANOTHER cart that was not written to', case):
                return
            ctx.feature('aliasing_steps')
        ctx.feature('aliasing_histories')


def run_shard(spec, ctx):
    rng = ctx.rng
    kind = spec['kind']
    if kind == 'aliasing':
        run_aliasing(ctx, rng, spec)
        ctx.sample({'aliasing': 'two carts; reused scratch bytearrays; data taken from live sections; .p8 files omitting sections'})
        return
    if kind == 'reject_grid':
        # every start in a set of interesting addresses x every length in a set of interesting sizes that passes 0x4300
        starts = sorted({0, 1, 2, 0x1fff, 0x2000, 0x3000, 0x3100, 0x3200, 0x42fe, 0x42ff, 0x4300, 0x4301,
                         # addresses beyond the cart data, beyond 16 and 32 bits: nothing there is cart memory
                         0x5e00, 0x8000, 0xffff, 0x10000, 0x10001, 0x12000, 0x14300, 0x20000, 0xffffffff, 0x100000000, 0x100003000})
        sizes = sorted({1, 2, 0x100, 0x1000, 0x1100, 0x2000, 0x4300, 0x4301, 0x42ff, 0x7fff, 0x8000, 0x8001, 0x3d00, 0x8600, 0x10000, 0x4300 * 2})
        for s_ in starts:
            for n in sizes:
                if s_ + n <= DATA_END or (s_ > 0x4301 and n > 0x1100):
                    continue
                for typ in (bytes, bytearray):
                    g, sh = _new_game(rng)
                    do_write(ctx, g, sh, s_, typ(carts.random_bytes(rng, n)), 'reject-grid')
                    ctx.feature('reject_grid_cases')
        ctx.sample({'reject_grid': 'starts x sizes incl. (0, 0x8000) as bytes and bytearray'})
        return
    if kind == 'pairs':
        pairs = boundary_pairs()
        i, k = spec['slice']
        for idx in range(i, len(pairs), k):
            s, e = pairs[idx]
            g, sh = _new_game(rng)
            data = carts.random_bytes(rng, e - s)
            do_write(ctx, g, sh, s, data, 'pair')
            ctx.feature('boundary_pair')
            if idx == i:
                ctx.sample({'start': hex(s), 'end': hex(e), 'data_prefix': data[:8]})
    elif kind == 'random':
        g, sh = _new_game(rng)
        for _ in range(spec['count']):
            s = rng.randrange(0, DATA_END)
            mx = DATA_END - s
            n = rng.choice((0, 1, 2, rng.randint(0, 64), rng.randint(0, mx), mx))
            n = min(n, mx)
            data = carts.random_bytes(rng, n)
            if not do_write(ctx, g, sh, s, data, 'random'):
                g, sh = _new_game(rng)
    elif kind == 'history':
        for _ in range(spec['count']):
            g, sh = _new_game(rng)
            steps = rng.randint(10, 60)
            for st in range(steps):
                if rng.random() < 0.4:
                    b = rng.choice(BOUNDS[1:-1])
                    s = max(0, b - rng.randint(0, 40))
                    n = rng.randint(0, 90)
                else:
                    s = rng.randrange(0, DATA_END)
                    n = rng.randint(0, 600)
                n = min(n, DATA_END - s)
                # keep sequences alive on trees where the boundary defect exists: a write ending exactly on a
                # boundary is driven by the 'pairs'/'random' shards; here 1 in 8 sequences still includes them
                data = carts.random_bytes(rng, n)
                if not do_write(ctx, g, sh, s, data, 'history'):
                    break
                ctx.feature('history_steps')
                if rng.random() < 0.2:
                    # what a user observes after raw writes is the saved cart: render .p8 text and read it independently
                    import io
                    from pico8.game.formatter.p8 import P8Formatter
                    from .. import refcodec as rc
                    buf = io.BytesIO()
                    P8Formatter.to_file(g, buf)
                    ref = rc.read_p8(buf.getvalue())
                    ctx.monitor('saved_carts_compared')
                    bad = [n for n, _ in REGIONS if ref[n] != (sh.region(n) if n != 'music' else rc.music_mask(sh.region(n)))]
                    if bad:
                        ctx.violation('after the writes so far the saved .p8 shows other bytes in %s than were written' % bad,
                                      {'start': s, 'data': data, 'prior': bytes(sh.mem), 'tag': 'saved-p8'})
                        break
                if rng.random() < 0.15:
                    # the library allows a section object to be replaced (build does it with setattr); later writes must
                    # land in the cart's current sections
                    swap_section(g, rng)
                    ctx.feature('section_object_replaced')
            ctx.feature('histories')
    elif kind == 'reject':
        for _ in range(spec['count']):
            g, sh = _new_game(rng)
            s = rng.choice((0, 0x2000, 0x42fe, 0x42ff, 0x4300, 0x4301, 0x4302, rng.randrange(0, 0x4303)))
            n = DATA_END - s + rng.choice((1, 1, 2, 17, 4096))
            if n <= 0:
                n = rng.choice((1, 2, 9))
            # what lies beyond the cart data is refused whatever it is: random bytes, zeros (a padded memory dump), the cart's own bytes
            shape = ('random', 'zeros', 'zero_overrun', 'own_bytes')[ctx.monitors.get('rejections_expected', 0) % 4]
            data = carts.random_bytes(rng, n)
            if shape == 'zeros':
                data = bytes(n)
            elif shape == 'zero_overrun':
                keep = max(0, DATA_END - s)
                data = data[:keep] + bytes(n - keep)
            elif shape == 'own_bytes':
                data = (bytes(sh.mem[s:DATA_END]) + bytes(n))[:n]
            ctx.feature('rejected_data:' + shape)
            do_write(ctx, g, sh, s, data, 'reject')


def replay(case, ctx):
    g = carts.make_game({n: case['prior'][a:b] for n, (a, b) in REGIONS}, code=b'x=1\n', label=bytes(range(256)) * 32)
    do_write(ctx, g, Shadow(case['prior']), case['start'], case['data'], 'replay')


def gates(m, tier):
    f, mon = m['features'], m['monitors']
    missed = []
    if f.get('boundary_pair', 0) < len(boundary_pairs()):
        missed.append('boundary pairs incomplete: %s of %d' % (f.get('boundary_pair'), len(boundary_pairs())))
    if mon.get('rejections_expected', 0) < 50:
        missed.append('too few rejected writes')
    if f.get('history_steps', 0) < 200:
        missed.append('too few history steps: %s' % f.get('history_steps'))
    for k in (1, 2, 3, 4, 5):
        if f.get('regions_spanned_%d' % k, 0) < 3:
            missed.append('no write spanning %d regions' % k)
    if min(f.get('rejected_data:' + k, 0) for k in ('random', 'zeros', 'zero_overrun', 'own_bytes')) < 20:
        missed.append('rejected writes by kind of data: %s' % {k: f.get('rejected_data:' + k, 0) for k in ('random', 'zeros', 'zero_overrun', 'own_bytes')})
    for k in ('data_type:bytes', 'data_type:bytearray', 'data_type:memoryview', 'address_argument:positional', 'address_argument:keyword', 'address_argument:left_out'):
        if f.get(k, 0) < (5 if k.endswith('left_out') else 20):
            missed.append('%s: %d writes' % (k, f.get(k, 0)))
    if f.get('writes_with_warnings_as_errors', 0) < 300:
        missed.append('writes with warnings turned into errors: %d' % f.get('writes_with_warnings_as_errors', 0))
    if f.get('cart_with_label', 0) < 500 or f.get('cart_without_label', 0) < 200:
        missed.append('writes to carts with a label %d, without %d' % (f.get('cart_with_label', 0), f.get('cart_without_label', 0)))
    if mon.get('saved_carts_compared', 0) < 20:
        missed.append('saved carts compared: %d' % mon.get('saved_carts_compared', 0))
    if f.get('section_object_replaced', 0) < 20:
        missed.append('section objects replaced only %d times' % f.get('section_object_replaced', 0))
    if f.get('reject_grid_cases', 0) < 200 or f.get('aliasing_steps', 0) < 100 or f.get('two_carts_from_p8_omitting_same_sections', 0) < 4:
        missed.append('reject grid %d, aliasing steps %d, pairs of carts from .p8 files omitting sections %d' % (
            f.get('reject_grid_cases', 0), f.get('aliasing_steps', 0), f.get('two_carts_from_p8_omitting_same_sections', 0)))
    for k in ('whole_region_from_reused_bytearray', 'data_from_live_section'):
        if f.get(k, 0) < 10:
            missed.append('%s: %d' % (k, f.get(k, 0)))
    if mon.get('region_comparisons', 0) < 1000:
        missed.append('monitor saw too few comparisons')
    return missed
