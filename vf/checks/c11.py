"""C11 — a failed cart write never damages the file already at the destination.

Fault enumeration on the real write paths (file.to_file, `p8tool luafmt --overwrite`, `p8tool build` over its input):
 (1) the stream the formatter receives fails on its k-th write, for EVERY k up to the fault-free count + 1;
 (2) the Lua writer raises after k lines, or emits code that does not re-parse;
 (3) a section object raises at item k of to_lines / in to_bytes;
 (4) the PNG encoder (png.Writer.write) raises after k rows;
 (5) source-free failpoints: a sys.monitoring LINE callback restricted to the code of the formatters, Lua writers, sections,
     compressor and pypng raises at the n-th executed line: once per distinct (function, line) site of a fault-free write,
     then at random n.
Oracle: snapshot (existence, bytes, inode, mtime, directory listing) of the destination before vs after a call that raised.
Supporting trace: audit-hook open() events on the destination before the encoder returned are logged.
"""
import io
import os
import shutil
import tempfile

from .. import carts, faults, fsmon
from .. import refcodec as rc

LEVEL = 'fault_enumeration'
RULE = ('for each configuration {.p8, .p8.png} x {destination exists, absent} x entry {file.to_file, luafmt --overwrite, build over its input, '
        'luamin / luafmt / writep8 writing <input>_fmt over an earlier output}: every '
        'stream write index k = 1..(fault-free count + 1) (complete), Lua-writer failures after k lines for the echo/minify/format writers and an '
        'unparseable-output writer, section failures at items {0, 1, mid, last} of each section, PNG encoder failures after k rows for k in a spread, '
        'and line failpoints: one per distinct executed (function, line) site plus random indices. A case is one injected fault; non-trivial: the fault '
        'was delivered (the call raised InjectedFault or the re-parse error); distinct by (configuration, injector, index)')
ASSUMPTIONS = [
    'only failures before the encoder has returned are in scope (the final copy to the destination is not fault-injected)',
    'failpoints cover executed lines of pico8.game.formatter.*, pico8.lua.lua, pico8.gfx/gff/map/sfx/music, pico8.util, pico8.game.compress and png, not every bytecode',
    'the destination directory contains only the files the harness put there; temporary files elsewhere are not judged',
]
EXHAUSTIVE = {'quick': True, 'thorough': True}
PYOPT_KINDS = ('writer_section',)
TIMEOUT = {'quick': 1500, 'thorough': 10800}


def plan(tier, seed):
    specs = []
    for fmt in ('p8', 'png'):
        for exists in (True, False):
            specs.append({'kind': 'stream', 'fmt': fmt, 'exists': exists})
            specs.append({'kind': 'writer_section', 'fmt': fmt, 'exists': exists})
            specs.append({'kind': 'failpoints', 'fmt': fmt, 'exists': exists, 'random': 30 if tier == 'quick' else 400,
                          'entry': 'file'})
    specs.append({'kind': 'writer_section', 'fmt': 'p8', 'exists': True, 'hardlink': True})
    specs.append({'kind': 'writer_section', 'fmt': 'png', 'exists': True, 'hardlink': True})
    specs.append({'kind': 'stream', 'fmt': 'p8', 'exists': True, 'readonly': True})
    specs.append({'kind': 'stream', 'fmt': 'png', 'exists': True, 'readonly': True})
    specs.append({'kind': 'internal'})
    # destination present as a zero-length file (a reserved name, an earlier failed run); debug verbosity while the write fails
    for fmt in ('p8', 'png'):
        specs.append({'kind': 'stream', 'fmt': fmt, 'exists': True, 'empty': True})
        for exists in (True, False):
            specs.append({'kind': 'stream', 'fmt': fmt, 'exists': exists, 'verbosity': 'debug'})
    specs.append({'kind': 'internal', 'verbosity': 'debug'})
    specs.append({'kind': 'faultfree'})
    specs.append({'kind': 'cli_more'})
    specs.append({'kind': 'cli', 'entry': 'luamin_fmt', 'verbosity': 'debug'})
    specs.append({'kind': 'cli', 'entry': 'build', 'verbosity': 'debug'})
    specs.append({'kind': 'png_rows', 'exists': True})
    specs.append({'kind': 'png_rows', 'exists': False})
    specs.append({'kind': 'cli', 'entry': 'luafmt'})
    specs.append({'kind': 'cli', 'entry': 'build'})
    for e in ('luamin_fmt', 'luafmt_fmt', 'writep8_fmt'):
        specs.append({'kind': 'cli', 'entry': e})
    specs.append({'kind': 'failpoints', 'fmt': 'p8', 'exists': True, 'random': 20 if tier == 'quick' else 200, 'entry': 'luafmt'})
    specs.append({'kind': 'failpoints', 'fmt': 'p8', 'exists': True, 'random': 20 if tier == 'quick' else 200, 'entry': 'build'})
    return specs


NAME_COUNTER = [0]


class Dest:
    """A destination path with its before/after snapshot oracle."""

    def __init__(self, ctx, rng, fmt, exists, root, readonly=False, empty=False, hardlink=False):
        self.ctx = ctx
        self.hardlink = hardlink
        self.readonly = readonly
        self.empty = empty
        self.dir = os.path.join(root, 'dest')
        os.makedirs(self.dir, exist_ok=True)
        NAME_COUNTER[0] += 1
        self.base = carts.cart_basename(NAME_COUNTER[0])
        self.path = os.path.join(self.dir, self.base + ('.p8' if fmt == 'p8' else '.p8.png'))
        self.fmt = fmt
        self.exists = exists
        self.regions, _ = carts.random_regions(rng, 'uniform')
        self.regions['music'] = rc.music_mask(self.regions['music'])
        self.code = carts.simple_lua(rng, 400)
        if exists:
            if fmt == 'p8':
                data = rc.write_p8(self.regions, self.code, version=8, label=carts.random_bytes(rng, 8192))
            else:
                rows = [bytearray(carts.random_bytes(rng, rc.CART_W * 4)) for _ in range(rc.CART_H)]
                data = rc.write_p8png(self.regions, rc.raw_code_area(self.code), 8, base_rows=rows)
            with open(self.path, 'wb') as fh:
                fh.write(b'' if empty else data)
        if exists and hardlink:
            # the file has a second name elsewhere (a cart hard-linked into the PICO-8 carts folder): it is still the file already there
            ldir = os.path.join(root, 'links')
            os.makedirs(ldir, exist_ok=True)
            self.link = os.path.join(ldir, 'link%d' % NAME_COUNTER[0] + ('.p8' if fmt == 'p8' else '.p8.png'))
            os.link(self.path, self.link)
        if exists and readonly:
            os.chmod(self.path, 0o444)      # a destination the user marked read-only is still "the file already there"
        with open(os.path.join(self.dir, 'bystander.txt'), 'wb') as fh:
            fh.write(b'untouched')
        self.snap = self.snapshot()

    def snapshot(self):
        if os.path.exists(self.path):
            st = os.stat(self.path)
            with open(self.path, 'rb') as fh:
                data = fh.read()
            meta = (st.st_ino, st.st_mtime_ns, st.st_size, st.st_mode & 0o777)
        else:
            data, meta = None, None
        return (data, meta, sorted(os.listdir(self.dir)))

    def judge(self, case, what):
        now = self.snapshot()
        self.ctx.monitor('destination_snapshots_compared')
        if now == self.snap:
            return True
        if now[0] != self.snap[0]:
            if self.snap[0] is None:
                d = 'a destination that did not exist was created (%d bytes)' % len(now[0])
            elif now[0] is None:
                d = 'the existing destination was removed'
            else:
                d = 'the existing destination changed: %d -> %d bytes' % (len(self.snap[0]), len(now[0]))
        elif now[2] != self.snap[2]:
            d = 'stray files in the destination directory: %s' % sorted(set(now[2]) ^ set(self.snap[2]))
        else:
            d = 'the destination was rewritten (inode/mtime changed) although its bytes are equal'
        self.ctx.violation('%s failed, yet %s' % (what, d), case)
        # restore for the following faults
        if self.snap[0] is None:
            if os.path.exists(self.path):
                os.remove(self.path)
        else:
            if os.path.exists(self.path):
                os.chmod(self.path, 0o644)
            with open(self.path, 'wb') as fh:
                fh.write(self.snap[0])
            if self.readonly:
                os.chmod(self.path, 0o444)
        for f in set(now[2]) - set(self.snap[2]):
            p = os.path.join(self.dir, f)
            if os.path.isfile(p):
                os.remove(p)
        self.snap = self.snapshot()
        return False


def new_game(rng):
    regions, _ = carts.random_regions(rng, 'uniform')
    version = rng.choice((8, 8, 33, 34, 36, 41, 16, 255))
    return carts.make_game(regions, code=carts.varied_lua(rng, 300), version=version, label=carts.random_bytes(rng, 8192))


def fmt_class(fmt):
    from pico8.game.formatter.p8 import P8Formatter
    from pico8.game.formatter.p8png import P8PNGFormatter
    return P8Formatter if fmt == 'p8' else P8PNGFormatter


def attempt(ctx, dest, call, case, injector, fired=None):
    """Run call() under an armed injector; judge the destination if the fault was delivered: the call raised, or the
    injector reports that it fired (an entry point may catch the exception and return an error code instead)."""
    if getattr(dest, 'hardlink', False):
        case['hardlink'] = True
    ctx.case(repr(sorted((k, v) for k, v in case.items() if k != 'what')))
    root = os.path.dirname(dest.dir)
    try:
        with fsmon.Watch(root, [root]) as w:
            call()
        raised = None
    except faults.InjectedFault as e:
        raised = e
    except BaseException as e:
        raised = e
    early = [p for p, m in w.events if p == fsmon._norm(dest.path) and m and any(c in str(m) for c in 'wa+')]
    if raised is None and fired is not None and fired():
        raised = 'fault delivered; the entry point returned instead of raising'
        ctx.monitor('faults_swallowed_by_entry_point')
    if raised is None:
        ctx.monitor('faults_not_reached')
        # the write succeeded: refresh the snapshot (destination legitimately changed)
        dest.snap = dest.snapshot()
        return False
    ctx.monitor('faults_delivered')
    ctx.monitor('faults_delivered:' + injector)
    ctx.feature('delivered:%s:%s:%s' % (injector, dest.fmt, 'exists' if dest.exists else 'absent'))
    if early:
        ctx.monitor('early_destination_opens_logged', len(early))
    dest.judge(case, '%s (%s)' % (injector, raised))
    return True


def run_stream(ctx, rng, spec, root):
    from pico8.game import file as p8file
    dest = Dest(ctx, rng, spec['fmt'], spec['exists'], root, readonly=spec.get('readonly', False), empty=spec.get('empty', False))
    if spec.get('readonly'):
        ctx.feature('readonly_destination')
    if spec.get('empty'):
        ctx.feature('zero_length_destination')
    cls = fmt_class(spec['fmt'])
    g = new_game(rng)
    # fault-free count
    with faults.StreamFaultPatch(cls, -1) as pt:
        scratch = os.path.join(root, 'scratch.' + ('p8' if spec['fmt'] == 'p8' else 'p8.png'))
        p8file.to_file(g, scratch)
        total = pt.stream.writes
    os.remove(scratch)
    ctx.extra['stream_writes_%s' % spec['fmt']] = total
    for k in range(1, total + 2):
        with faults.StreamFaultPatch(cls, k) as pt:
            attempt(ctx, dest, lambda: p8file.to_file(g, dest.path),
                    {'injector': 'stream', 'k': k, 'fmt': spec['fmt'], 'exists': spec['exists'], 'empty': spec.get('empty', False),
                     'verbosity': VERBOSITY[0]}, 'stream',
                    fired=lambda: pt.stream is not None and pt.stream.failed)
        ctx.feature('stream_index_%s' % spec['fmt'])
    ctx.feature('stream_enumeration_complete:%s' % spec['fmt'])
    ctx.sample({'injector': 'stream', 'fmt': spec['fmt'], 'write_indices': '1..%d' % (total + 1)})


def run_writer_section(ctx, rng, spec, root):
    from pico8.game import file as p8file
    from pico8.lua import lua
    dest = Dest(ctx, rng, spec['fmt'], spec['exists'], root, hardlink=spec.get('hardlink', False))
    if spec.get('hardlink'):
        ctx.feature('hard_linked_destination')
    g = new_game(rng)
    nlines = len(list(g.lua.to_lines()))
    for base in (lua.LuaEchoWriter, lua.LuaMinifyTokenWriter, lua.LuaFormatterWriter, lua.LuaASTEchoWriter):
        for k in sorted({0, 1, 2, nlines // 2, max(0, nlines - 1)}):
            W = faults.failing_writer_cls(base, k)
            attempt(ctx, dest, lambda: p8file.to_file(g, dest.path, lua_writer_cls=W),
                    {'injector': 'lua_writer', 'base': base.__name__, 'k': k, 'fmt': spec['fmt'], 'exists': spec['exists']},
                    'lua_writer')
        # the type of the exception a writer raises does not matter
        for exc in (IndexError, KeyError, AttributeError, ValueError, TypeError, OSError, RuntimeError, AssertionError, LookupError,
                    ArithmeticError, NotImplementedError,
                    # (what ends a long minify or compression when the user presses Control-C, or a tool calls sys.exit())
                    KeyboardInterrupt, SystemExit, GeneratorExit):
            W = faults.failing_writer_cls(base, 1, exc=exc)
            attempt(ctx, dest, lambda: p8file.to_file(g, dest.path, lua_writer_cls=W),
                    {'injector': 'lua_writer', 'base': base.__name__, 'k': 1, 'exc': exc.__name__, 'fmt': spec['fmt'], 'exists': spec['exists']},
                    'lua_writer', fired=lambda: True)
            ctx.feature('writer_exception_types')
        if spec['fmt'] == 'p8':
            W = faults.failing_writer_cls(base, 1, garbage=True)
            attempt(ctx, dest, lambda: p8file.to_file(g, dest.path, lua_writer_cls=W),
                    {'injector': 'unparseable_output', 'base': base.__name__, 'fmt': spec['fmt'], 'exists': spec['exists']},
                    'unparseable_output')
    for sec in ('gfx', 'gff', 'map', 'sfx', 'music', 'label'):
        if spec['fmt'] == 'png' and sec == 'label':
            continue
        orig = getattr(g, sec)
        nitems = len(list(orig.to_lines()))
        for k in sorted({0, 1, nitems // 2, nitems - 1}):
            setattr(g, sec, faults.FailingSection(orig, k))
            try:
                attempt(ctx, dest, lambda: p8file.to_file(g, dest.path),
                        {'injector': 'section', 'section': sec, 'k': k, 'fmt': spec['fmt'], 'exists': spec['exists']}, 'section')
            finally:
                setattr(g, sec, orig)
    ctx.sample({'injector': 'lua_writer/section', 'fmt': spec['fmt']})


def run_png_rows(ctx, rng, spec, root):
    from pico8.game import file as p8file
    dest = Dest(ctx, rng, 'png', spec['exists'], root)
    g = new_game(rng)
    for k in (0, 1, 2, 50, 100, 163, 164, 203, 204):
        with faults.PngWriterFault(k):
            attempt(ctx, dest, lambda: p8file.to_file(g, dest.path),
                    {'injector': 'png_encoder', 'k': k, 'fmt': 'png', 'exists': spec['exists']}, 'png_encoder')


def cli_call(entry, dest, root):
    from pico8 import tool
    if entry == 'luafmt':
        return lambda: tool.main(QUIET + ['luafmt', '--overwrite', dest.path])
    src = os.path.join(root, 'gfxsrc.p8')
    if not os.path.exists(src):
        import random
        regions, _ = carts.random_regions(random.Random(5), 'uniform')
        with open(src, 'wb') as fh:
            fh.write(rc.write_p8(regions, b'z=1\n', version=8))
    return lambda: tool.main(QUIET + ['build', dest.path, '--gfx', src, '--lua', dest.path])


class FmtDest(Dest):
    """Destination = the *_fmt file a CLI tool writes next to its input."""

    def __init__(self, ctx, rng, fmt, exists, root, empty=False):
        Dest.__init__(self, ctx, rng, fmt, exists, root)
        self.empty = empty
        ext = '.p8' if fmt == 'p8' else '.p8.png'
        inp = os.path.join(self.dir, self.base + '_in' + ext)
        out = os.path.join(self.dir, self.base + '_in_fmt' + ext)
        # the file Dest wrote becomes the input; the watched destination is the _fmt file (an earlier run's output)
        if os.path.exists(self.path):
            os.replace(self.path, inp)
        else:
            regions, _ = carts.random_regions(rng, 'uniform')
            data = rc.write_p8(regions, self.code, version=8) if fmt == 'p8' else rc.write_p8png(regions, rc.raw_code_area(self.code), 8)
            with open(inp, 'wb') as fh:
                fh.write(data)
        if exists:
            shutil.copy(inp, out)
            if empty:
                open(out, 'wb').close()
        self.path = out
        self.inp = inp
        self.snap = self.snapshot()


def run_cli(ctx, rng, spec, root):
    if spec['entry'].endswith('_fmt'):
        from pico8 import tool
        tool_name = spec['entry'].split('_')[0]
        for fmt in ('p8', 'png'):
            for exists, empty in ((True, False), (False, False), (True, True)):
                dest = FmtDest(ctx, rng, fmt, exists, root, empty=empty)
                cls = fmt_class(fmt)
                call = lambda: tool.main(QUIET + [tool_name, dest.inp])
                if empty and fmt == 'png':
                    # a zero-length .p8.png destination cannot serve as the label source: the write fails by itself, which is one
                    # more failure to judge (the empty file has to stay as it is)
                    attempt(ctx, dest, call, {'injector': 'unreadable_existing_destination', 'entry': spec['entry'], 'fmt': fmt,
                                              'exists': True, 'empty': True}, 'unreadable_existing_destination', fired=lambda: True)
                    ctx.feature('zero_length_fmt_destination')
                    shutil.rmtree(dest.dir, ignore_errors=True)
                    continue
                with faults.StreamFaultPatch(cls, -1) as pt:
                    call()
                    total = pt.stream.writes
                if not exists:
                    os.remove(dest.path)
                if empty:
                    open(dest.path, 'wb').close()
                    ctx.feature('zero_length_fmt_destination')
                dest.snap = dest.snapshot()
                for k in sorted(set(list(range(1, 8)) + [total // 2, total - 1, total, total + 1])):
                    if k < 1:
                        continue
                    if k in (1, 4) and not empty:
                        # no earlier successful run of the tool on this input
                        shutil.rmtree(dest.dir, ignore_errors=True)
                        dest = FmtDest(ctx, rng, fmt, exists, root)
                        call = lambda: tool.main(QUIET + [tool_name, dest.inp])
                        ctx.feature('cli_first_invocation_fails')
                    with faults.StreamFaultPatch(cls, k) as pt:
                        attempt(ctx, dest, call, {'injector': 'stream', 'entry': spec['entry'], 'k': k, 'fmt': fmt, 'exists': exists, 'empty': empty,
                                                  'verbosity': VERBOSITY[0]},
                                'stream', fired=lambda: pt.stream is not None and pt.stream.failed)
                    ctx.feature('cli_%s_stream_index' % spec['entry'])
                shutil.rmtree(dest.dir, ignore_errors=True)
        ctx.sample({'entry': spec['entry'], 'note': 'writes <input>_fmt next to the input; an earlier output may exist'})
        return
    fmts = ('p8',) if spec['entry'] == 'luafmt' else ('p8', 'png')
    for fmt in fmts:
        dest = Dest(ctx, rng, fmt, True, root)
        cls = fmt_class(fmt)
        call = cli_call(spec['entry'], dest, root)
        if spec['entry'] == 'luafmt':
            # an earlier run without --overwrite left <cart>_fmt.p8 next to the cart: it is a bystander of the runs that follow
            from pico8 import tool as _tool
            _tool.main(QUIET + ['luafmt', dest.path])
            ctx.feature('stale_fmt_file_next_to_cart')
        with faults.StreamFaultPatch(cls, -1) as pt:
            call()
            total = pt.stream.writes
        # that run legitimately rewrote the destination
        dest.snap = dest.snapshot()
        for k in range(1, total + 2):
            if k % 4 == 1:
                # a cart this command has never been run on before: the very first invocation is the one that fails
                shutil.rmtree(dest.dir, ignore_errors=True)
                dest = Dest(ctx, rng, fmt, True, root)
                call = cli_call(spec['entry'], dest, root)
                if spec['entry'] == 'luafmt' and k % 8 == 1:
                    from pico8 import tool as _tool
                    _tool.main(QUIET + ['luafmt', dest.path])
                    dest.snap = dest.snapshot()
                ctx.feature('cli_first_invocation_fails')
            with faults.StreamFaultPatch(cls, k) as pt:
                attempt(ctx, dest, call, {'injector': 'stream', 'entry': spec['entry'], 'k': k, 'fmt': fmt, 'exists': True},
                        'stream', fired=lambda: pt.stream is not None and pt.stream.failed)
            ctx.feature('cli_%s_stream_index' % spec['entry'])
        shutil.rmtree(dest.dir, ignore_errors=True)
    ctx.sample({'entry': spec['entry'], 'injector': 'stream', 'note': 'writes over its own input'})


def run_failpoints(ctx, rng, spec, root):
    import png
    from pico8.game import file as p8file
    from pico8.game.formatter import p8 as m_p8, p8png as m_png, base as m_base
    from pico8.lua import lua as m_lua
    from pico8.gfx import gfx as m_gfx
    from pico8.gff import gff as m_gff
    from pico8.map import map as m_map
    from pico8.sfx import sfx as m_sfx
    from pico8.music import music as m_music
    from pico8.game import compress as m_compress
    from pico8 import util as m_util
    mods = [m_p8, m_png, m_base, m_lua, m_gfx, m_gff, m_map, m_sfx, m_music, m_compress, m_util, png]
    codes = faults.code_objects_of(mods)
    dest = Dest(ctx, rng, spec['fmt'], spec['exists'], root)
    g = new_game(rng)
    entry = spec.get('entry', 'file')
    if entry == 'file':
        def call():
            p8file.to_file(g, dest.path)
    else:
        call = cli_call(entry, dest, root)
    with faults.Failpoints(codes) as fp:
        fp.arm(record=True)
        scratch_dest = dest
        if entry == 'file':
            sp = os.path.join(root, 'fp_scratch.' + ('p8' if spec['fmt'] == 'p8' else 'p8.png'))
            p8file.to_file(g, sp)
            os.remove(sp)
        else:
            call()
            dest.snap = dest.snapshot()
        fp.disarm()
        seq = list(fp.sites)
        first = {}
        for i, s in enumerate(seq):
            first.setdefault(s, i + 1)
        ctx.extra['failpoint_events_%s_%s' % (spec['fmt'], entry)] = len(seq)
        ctx.extra['failpoint_sites_%s_%s' % (spec['fmt'], entry)] = len(first)
        targets = sorted(first.values())
        targets += [rng.randint(1, len(seq)) for _ in range(spec['random'])]
        if spec.get('only_site'):
            targets = [first[spec['only_site']]] if spec['only_site'] in first else []
        for n in targets:
            fp.arm(fail_at=n)
            try:
                delivered = attempt(ctx, dest, call, {'injector': 'failpoint', 'n': n, 'fmt': spec['fmt'], 'exists': spec['exists'],
                                                      'entry': entry, 'site': list(seq[n - 1])}, 'failpoint',
                                    fired=lambda: fp.fired is not None)
            finally:
                fp.disarm()
            if delivered:
                ctx.extra.setdefault('sites_hit', set()).add(seq[n - 1])
        ctx.monitor('failpoint_sites_in_fault_free_run', len(first))
    ctx.extra['sites_hit'] = len(ctx.extra.get('sites_hit', ()))
    ctx.monitor('failpoint_sites_hit', ctx.extra['sites_hit'])
    ctx.sample({'injector': 'failpoint', 'fmt': spec['fmt'], 'entry': entry, 'example_site': list(seq[len(seq) // 2])})


def run_internal(ctx, rng, spec, root):
    """Failure sources that need no injection: code that cannot be encoded, a Lua writer option naming a missing file,
    `build` from a source that does not parse or requires a missing module -- with the destination existing, read-only, absent."""
    from pico8.game import file as p8file
    from pico8.lua import lua
    from pico8 import tool
    always = lambda: True   # these calls cannot succeed: whatever they return, the destination must be as before
    for exists, readonly, empty in ((True, False, False), (True, True, False), (False, False, False), (True, False, True)):
        # 1. oversize code for a .p8.png
        dest = Dest(ctx, rng, 'png', exists, root, readonly=readonly, empty=empty)
        regions, _ = carts.random_regions(rng, 'uniform')
        big = carts.make_game(regions, code=carts.incompressible(rng, 17000), version=8)
        attempt(ctx, dest, lambda: p8file.to_file(big, dest.path),
                {'injector': 'oversize_code', 'fmt': 'png', 'exists': exists, 'readonly': readonly}, 'oversize_code', fired=always)
        shutil.rmtree(dest.dir, ignore_errors=True)
        # 1b. a .rom destination (a format the library may or may not be able to write): a Lua writer that raises, or code that
        # cannot be encoded, fails the save whatever the format, and the file stays as it is
        if not readonly and not empty:
            romdir = os.path.join(root, 'romdest')
            os.makedirs(romdir, exist_ok=True)
            rompath = os.path.join(romdir, 'cart.rom')
            if exists:
                with open(rompath, 'wb') as fh:
                    fh.write(carts.random_bytes(rng, 0x8000))
            elif os.path.exists(rompath):
                os.remove(rompath)
            rdest = PlainDest(ctx, rompath, 'rom')
            g_rom = new_game(rng)
            W = faults.failing_writer_cls(lua.LuaEchoWriter, 1)
            attempt(ctx, rdest, lambda: p8file.to_file(g_rom, rompath, lua_writer_cls=W),
                    {'injector': 'rom_lua_writer', 'fmt': 'rom', 'exists': exists}, 'rom_destination', fired=always)
            attempt(ctx, rdest, lambda: p8file.to_file(big, rompath),
                    {'injector': 'rom_oversize_code', 'fmt': 'rom', 'exists': exists}, 'rom_destination', fired=always)
            attempt(ctx, rdest, lambda: p8file.to_file(g_rom, rompath),
                    {'injector': 'rom_plain', 'fmt': 'rom', 'exists': exists}, 'rom_destination', fired=None)
            shutil.rmtree(romdir, ignore_errors=True)
        for fmt in ('p8', 'png'):
            # 2. the minifier is told to read a names file that does not exist
            dest = Dest(ctx, rng, fmt, exists, root, readonly=readonly, empty=empty)
            g = new_game(rng)
            attempt(ctx, dest, lambda: p8file.to_file(g, dest.path, lua_writer_cls=lua.LuaMinifyTokenWriter,
                                                      lua_writer_args={'keep_names_from_file': os.path.join(root, 'no_such_names.txt')}),
                    {'injector': 'missing_names_file', 'fmt': fmt, 'exists': exists, 'readonly': readonly}, 'missing_names_file', fired=always)
            # 3. build from sources that cannot be used
            bad = os.path.join(root, 'bad_main.lua')
            with open(bad, 'wb') as fh:
                fh.write(b'x=1\nfunction f(\n')
            attempt(ctx, dest, lambda: tool.main(QUIET + ['build', dest.path, '--lua', bad]),
                    {'injector': 'build_unparseable_source', 'fmt': fmt, 'exists': exists, 'readonly': readonly},
                    'build_unparseable_source', fired=always)
            # ... or from source carts that do not load (their code has a syntax error; the file is not a cart)
            for bad_name, bad_data in (('broken_code.p8', rc.write_p8(carts.random_regions(rng, 'uniform')[0], b'x = = 1\nfunction f(\n', version=8)),
                                       ('not_a_cart.p8', b'just some notes\n')):
                badcart = os.path.join(root, bad_name)
                with open(badcart, 'wb') as fh:
                    fh.write(bad_data)
                for secname in ('gfx', 'lua', 'sfx'):
                    attempt(ctx, dest, lambda: tool.main(QUIET + ['build', dest.path, '--' + secname, badcart]),
                            {'injector': 'build_source_cart_does_not_load', 'source': bad_name, 'section': secname, 'fmt': fmt, 'exists': exists,
                             'readonly': readonly}, 'build_source_cart_does_not_load', fired=always)
            req = os.path.join(root, 'req_main.lua')
            with open(req, 'wb') as fh:
                fh.write(b'x=1\nrequire("module_that_is_not_there")\n')
            attempt(ctx, dest, lambda: tool.main(QUIET + ['build', dest.path, '--lua', req]),
                    {'injector': 'build_missing_require', 'fmt': fmt, 'exists': exists, 'readonly': readonly},
                    'build_missing_require', fired=always)
            # and an injected stream failure during build to an absent / existing destination
            ok_src = os.path.join(root, 'ok_main.lua')
            with open(ok_src, 'wb') as fh:
                fh.write(b'x=1\nprint(x)\n')
            for k in (1, 2, 5):
                with faults.StreamFaultPatch(fmt_class(fmt), k) as pt:
                    attempt(ctx, dest, lambda: tool.main(QUIET + ['build', dest.path, '--lua', ok_src]),
                            {'injector': 'stream', 'entry': 'build', 'k': k, 'fmt': fmt, 'exists': exists, 'readonly': readonly},
                            'stream', fired=lambda: pt.stream is not None and pt.stream.failed)
            # 4. a cart whose own token stream does not parse (an update_from_lines() that raised left its tokens behind), default writer
            g_bad = new_game(rng)
            try:
                g_bad.lua.update_from_lines([b'x = = 1\n'])
            except Exception:
                ctx.feature('cart_with_unparseable_own_tokens')
            attempt(ctx, dest, lambda: p8file.to_file(g_bad, dest.path),
                    {'injector': 'unparseable_own_tokens', 'fmt': fmt, 'exists': exists, 'readonly': readonly}, 'unparseable_own_tokens',
                    # (the .p8 writer is the one that re-parses what it is about to write: code that does not re-parse is one of the
                    # failures the statement lists, so for .p8 the destination has to be as before whatever the call returns)
                    fired=always if fmt == 'p8' else None)
            # 5. build with a clean-up pass over code the parser does not read to its end / with an unusable option value
            notend = os.path.join(root, 'notend_main.lua')
            with open(notend, 'wb') as fh:
                fh.write(b'x = 1 end\ny = 2\n')

            def build_call(extra, src):
                def call():
                    try:
                        r = tool.main(QUIET + ['build', dest.path, '--lua', src] + extra)
                    except SystemExit as e:
                        raise RuntimeError('exit %r' % (e.code,))
                    if r:
                        raise RuntimeError('build returned %r' % (r,))
                return call
            for extra, src in ((['--lua-format'], notend), (['--lua-minify'], notend), (['--lua-format'], ok_src),
                               (['--lua-minify', '--keep-names-from-file', os.path.join(root, 'no_such_names.txt')], ok_src)):
                attempt(ctx, dest, build_call(extra, src),
                        {'injector': 'build_cleanup_pass', 'argv': extra, 'fmt': fmt, 'exists': exists, 'readonly': readonly},
                        'build_cleanup_pass', fired=None)
            # 6. the caller names the label source explicitly and the write fails
            if fmt == 'png':
                labelsrc = os.path.join(root, 'label_source.p8.png')
                with open(labelsrc, 'wb') as fh:
                    fh.write(rc.write_p8png(carts.random_regions(rng, 'zero')[0], rc.raw_code_area(b'l=1'), 8))
                attempt(ctx, dest, lambda: p8file.to_file(g, dest.path, label_fname=labelsrc, lua_writer_cls=lua.LuaMinifyTokenWriter,
                                                          lua_writer_args={'keep_names_from_file': os.path.join(root, 'no_such_names.txt')}),
                        {'injector': 'explicit_label_then_failure', 'fmt': fmt, 'exists': exists, 'readonly': readonly},
                        'explicit_label_then_failure', fired=always)
                # ... and the failure is the PNG side's own: code that cannot be encoded, a label source that is not a picture
                attempt(ctx, dest, lambda: p8file.to_file(big, dest.path, label_fname=labelsrc),
                        {'injector': 'explicit_label_oversize_code', 'fmt': fmt, 'exists': exists, 'readonly': readonly},
                        'explicit_label_then_failure', fired=always)
                notpng = os.path.join(root, 'label_source_not_a_picture.png')
                with open(notpng, 'wb') as fh:
                    fh.write(b'this is not a PNG file\n' * 20)
                attempt(ctx, dest, lambda: p8file.to_file(g, dest.path, label_fname=notpng),
                        {'injector': 'explicit_label_not_a_picture', 'fmt': fmt, 'exists': exists, 'readonly': readonly},
                        'explicit_label_then_failure', fired=always)
            ctx.feature('internal_failures_%s' % ('absent' if not exists else 'readonly' if readonly else 'zero_length' if empty else 'exists'))
            shutil.rmtree(dest.dir, ignore_errors=True)
    ctx.sample({'internal_failure_sources': ['oversize_code', 'missing_names_file', 'build_unparseable_source', 'build_missing_require']})


def run_cli_more(ctx, rng, spec, root):
    """(A) several carts on one command line, one of which cannot be processed: whatever the command does about the others, the
    destination of the cart that failed is as it was.  (B) the command-line tools with a Lua writer that raises, or whose output does
    not re-parse, swapped in for the one they use: the command fails and its destination is as it was."""
    from pico8 import tool
    from pico8.lua import lua
    n = 0
    good_code = carts.varied_lua(rng, 200)
    for cmd in ('luafmt_overwrite', 'luafmt', 'luamin', 'writep8'):
        for fmt in (('p8',) if cmd == 'luafmt_overwrite' else ('p8', 'png')):
            for order in ('good_first', 'bad_first', 'good_bad_good', 'good_first_unwritable'):
                # the cart that cannot be processed: its code does not load (a block never closed), or loads and cannot be written
                # (a stray `end`: the tree-driven writers refuse code that was not parsed to its end)
                bad_code = b'x=1\nif x then\n y=2\n' if order != 'good_first_unwritable' else b'x=1\nend\ny=2\n'
                for exists in (True, False):
                    if cmd == 'luafmt_overwrite' and not exists:
                        continue
                    n += 1
                    work = os.path.join(root, 'batch%d' % n)
                    da, db, dc = (os.path.join(work, x) for x in 'abc')
                    for d in (da, db, dc):
                        os.makedirs(d)
                    ext = '.p8' if fmt == 'p8' else '.p8.png'
                    regions, _ = carts.random_regions(rng, 'sparse')

                    def cart(code):
                        return rc.write_p8(regions, code, version=8) if fmt == 'p8' else rc.write_p8png(regions, rc.raw_code_area(code), 8)
                    pa, pb, pc = os.path.join(da, 'first' + ext), os.path.join(db, 'broken' + ext), os.path.join(dc, 'third' + ext)
                    for pth, code in ((pa, good_code), (pb, bad_code), (pc, good_code)):
                        with open(pth, 'wb') as fh:
                            fh.write(cart(code))
                    out_b = pb if cmd == 'luafmt_overwrite' else os.path.join(db, 'broken_fmt' + ('.p8' if cmd == 'writep8' else ext))
                    if exists and out_b != pb:
                        with open(out_b, 'wb') as fh:
                            fh.write(rc.write_p8(regions, b'earlier=1\n', version=8) if out_b.endswith('.p8') else cart(b'earlier=1\n'))
                    files = {'good_first': [pa, pb], 'bad_first': [pb, pa], 'good_bad_good': [pa, pb, pc], 'good_first_unwritable': [pa, pb]}[order]
                    argv = QUIET + (['luafmt', '--overwrite'] if cmd == 'luafmt_overwrite' else [cmd]) + files
                    dest = PlainDest(ctx, out_b, fmt)
                    case = {'injector': 'batch_one_cart_fails', 'cmd': cmd, 'fmt': fmt, 'order': order, 'exists': exists}
                    # (the unwritable cart only fails commands whose writer walks the tree; a command that copes with it has not failed)
                    rbox = [None]

                    def batch_call():
                        rbox[0] = tool.main(argv)
                        return rbox[0]
                    attempt(ctx, dest, batch_call, case, 'batch_one_cart_fails',
                            fired=(lambda: True) if order != 'good_first_unwritable' else (lambda: rbox[0] not in (0, None)))
                    ctx.feature('batch_order:' + order)
                    shutil.rmtree(work, ignore_errors=True)
    # (B)
    for cmd, base in (('luafmt_overwrite', 'LuaFormatterWriter'), ('luafmt', 'LuaFormatterWriter'), ('luamin', 'LuaMinifyTokenWriter')):
        for fmt in (('p8',) if cmd == 'luafmt_overwrite' else ('p8', 'png')):
            for garbage in (False, True):
                for k in (0, 1, 3):
                    for exists in (True, False):
                        if cmd == 'luafmt_overwrite' and not exists:
                            continue
                        n += 1
                        work = os.path.join(root, 'cliw%d' % n)
                        os.makedirs(work)
                        ext = '.p8' if fmt == 'p8' else '.p8.png'
                        regions, _ = carts.random_regions(rng, 'sparse')
                        code = carts.simple_lua(rng, 300)
                        inp = os.path.join(work, carts.cart_basename(n) + ext)
                        with open(inp, 'wb') as fh:
                            fh.write(rc.write_p8(regions, code, version=8) if fmt == 'p8' else rc.write_p8png(regions, rc.raw_code_area(code), 8))
                        out = inp if cmd == 'luafmt_overwrite' else inp[:-len(ext)] + '_fmt' + ext
                        if exists and out != inp:
                            shutil.copy(inp, out)
                        argv = QUIET + (['luafmt', '--overwrite'] if cmd == 'luafmt_overwrite' else [cmd]) + [inp]
                        orig = getattr(lua, base)
                        W = faults.failing_writer_cls(orig, k, garbage=garbage)
                        dest = PlainDest(ctx, out, fmt)
                        inj = 'cli_unparseable_output' if garbage else 'cli_lua_writer'
                        case = {'injector': inj, 'cmd': cmd, 'fmt': fmt, 'k': k, 'exists': exists, 'base': base}

                        def call():
                            setattr(lua, base, W)
                            try:
                                return tool.main(argv)
                            finally:
                                setattr(lua, base, orig)
                        # (a writer that raises always fails the command; output that does not re-parse is caught by the .p8 writer, which
                        # is the one that re-parses what it is about to write)
                        attempt(ctx, dest, call, case, inj, fired=(lambda: True) if (not garbage or fmt == 'p8') else None)
                        shutil.rmtree(work, ignore_errors=True)
    ctx.sample({'cli_more': 'several carts on one command line with one that cannot be processed; command-line tools with failing writers'})


class PlainDest(Dest):
    """Snapshot oracle for a destination the harness spells itself (no files of its own)."""

    def __init__(self, ctx, path, fmt):
        self.ctx = ctx
        self.readonly = False
        self.empty = False
        self.dir = os.path.dirname(path)
        self.path = path
        self.fmt = fmt
        self.exists = os.path.exists(path)
        self.snap = self.snapshot()


FF_CODES = ('no_lua_section', 'empty_lua_section', 'one_newline', 'comment_only', 'ordinary', 'section_header_lines_in_a_string')
FF_SPELLINGS = ('bare', 'dot_slash', 'subdir_relative', 'absolute', 'parent_relative')
FF_COMMANDS = ('luamin', 'luafmt', 'writep8', 'luafmt_overwrite', 'build', 'to_file')


def run_faultfree(ctx, rng, spec, root, only=None):
    """No injected fault: the commands and the library entry run on unusual but legitimate carts (no code at all, an empty Lua section,
    one line break, a comment) with the destination spelled as a bare file name, ./name, sub/name, ../name or an absolute path, existing or
    not.  Whenever a call raises or returns an error code -- whatever made it fail -- the destination has to be as it was."""
    from pico8 import tool
    from pico8.game import file as p8file
    n = 0
    here = os.getcwd()
    try:
        for code_kind in FF_CODES:
            for fmt in ('p8', 'png'):
                if fmt == 'png' and code_kind == 'no_lua_section':
                    continue
                for cmd in FF_COMMANDS:
                    for si, spelling in enumerate(FF_SPELLINGS):
                        for exists in (False, True):
                            if only is not None and (code_kind, fmt, cmd, spelling, exists) != only:
                                continue
                            if only is None and fmt == 'png' and (si + len(cmd) + exists) % 3:
                                continue     # (the PNG encoder is slow: a third of the grid)
                            n += 1
                            work = os.path.join(root, 'ff%d' % n)
                            sub = os.path.join(work, 'sub')
                            inner = os.path.join(sub, 'inner')
                            os.makedirs(inner)
                            ext = '.p8' if fmt == 'p8' else '.p8.png'
                            base = carts.cart_basename(n)
                            code = {'no_lua_section': b'', 'empty_lua_section': b'', 'one_newline': b'\n', 'comment_only': b'-- nothing here\n',
                                    # (lines of a long string / a block comment that read like parts of a cart file)
                                    'section_header_lines_in_a_string': b'fmt=[[\n__gfx__\n__lua__\n]]\n--[[\n__sfx__\npico-8 cartridge // http://www.pico-8.com\nversion 8\n]]\nx=1\n',
                                    'ordinary': carts.varied_lua(rng, 200)}[code_kind]
                            regions, _ = carts.random_regions(rng, 'sparse')
                            if fmt == 'p8':
                                data = rc.write_p8(regions, code, version=rng.choice((8, 33, 41)), final_newline=False,
                                                   omit=('lua',) if code_kind == 'no_lua_section' else ())
                            else:
                                data = rc.write_p8png(regions, rc.raw_code_area(code), 8)
                            inp = os.path.join(sub, base + ext)
                            with open(inp, 'wb') as fh:
                                fh.write(data)
                            out_name = {'luamin': base + '_fmt' + ext, 'luafmt': base + '_fmt' + ext, 'writep8': base + '_fmt.p8',
                                        'luafmt_overwrite': base + ext, 'build': 'built' + ext, 'to_file': 'saved' + ext}[cmd]
                            out = os.path.join(sub, out_name)
                            if exists and not os.path.exists(out):
                                shutil.copy(inp, out)
                            if not exists and os.path.exists(out):
                                continue     # (luafmt --overwrite: the destination is the input)
                            cwd, prefix = {'bare': (sub, ''), 'dot_slash': (sub, './'), 'subdir_relative': (work, 'sub/'),
                                           'absolute': (root, sub + '/'), 'parent_relative': (inner, '../')}[spelling]
                            arg_in, arg_out = prefix + base + ext, prefix + out_name
                            if cmd == 'to_file':
                                g = carts.make_game(regions, code=code, version=8)
                                call = lambda: p8file.to_file(g, arg_out)
                            elif cmd == 'build':
                                call = lambda: tool.main(QUIET + ['build', arg_out, '--lua', arg_in])
                            elif cmd == 'luafmt_overwrite':
                                call = lambda: tool.main(QUIET + ['luafmt', '--overwrite', arg_in])
                            else:
                                call = lambda: tool.main(QUIET + [cmd, arg_in])
                            case = {'injector': 'faultfree', 'code_kind': code_kind, 'fmt': fmt, 'cmd': cmd, 'spelling': spelling, 'exists': exists}
                            dest = PlainDest(ctx, out, fmt)
                            os.chdir(cwd)
                            failure = None
                            try:
                                rcode = call()
                                if rcode not in (0, None):
                                    failure = 'returned %r' % (rcode,)
                            except BaseException as e:
                                failure = 'raised %r' % (e,)
                            finally:
                                os.chdir(here)
                            ctx.case(repr(sorted(case.items())), nontrivial=True)
                            ctx.monitor('faultfree_calls')
                            for k in ('code_kind', 'cmd', 'spelling'):
                                ctx.feature('faultfree_%s:%s' % (k, case[k]))
                            ctx.feature('faultfree_dest_%s' % ('exists' if exists else 'absent'))
                            if failure is not None:
                                ctx.monitor('faultfree_calls_that_failed')
                                dest.judge(case, '%s %s (no fault injected; it %s)' % (cmd, arg_in if cmd != 'to_file' else arg_out, failure))
                            shutil.rmtree(work, ignore_errors=True)
        # two environments in which a call may fail by itself: the library entry called from a worker thread; the command line with
        # its output stream closed (`p8tool ... >&-`), at normal verbosity
        import threading
        from pico8 import util
        for variant in ('to_file_in_thread', 'stdout_closed:luafmt', 'stdout_closed:luamin', 'stdout_closed:writep8', 'stdout_closed:luafmt_overwrite',
                        'stdout_closed:build'):
            for fmt in ('p8', 'png'):
                for exists in (False, True):
                    if only is not None:
                        continue
                    n += 1
                    work = os.path.join(root, 'ffenv%d' % n)
                    os.makedirs(work)
                    ext = '.p8' if fmt == 'p8' else '.p8.png'
                    code = carts.varied_lua(rng, 200)
                    regions, _ = carts.random_regions(rng, 'sparse')
                    inp = os.path.join(work, 'cart' + ext)
                    with open(inp, 'wb') as fh:
                        fh.write(rc.write_p8(regions, code, version=8) if fmt == 'p8' else rc.write_p8png(regions, rc.raw_code_area(code), 8))
                    cmd = variant.split(':')[-1]
                    out = {'to_file_in_thread': os.path.join(work, 'saved' + ext), 'luafmt': os.path.join(work, 'cart_fmt' + ext),
                           'luamin': os.path.join(work, 'cart_fmt' + ext), 'writep8': os.path.join(work, 'cart_fmt.p8'),
                           'luafmt_overwrite': inp, 'build': os.path.join(work, 'built' + ext)}[cmd]
                    if cmd == 'luafmt_overwrite' and (fmt != 'p8' or not exists):
                        shutil.rmtree(work, ignore_errors=True)
                        continue
                    if exists and out != inp:
                        shutil.copy(inp, out) if out.endswith(ext) else open(out, 'wb').write(rc.write_p8(regions, b'old=1\n', version=8))
                    dest = PlainDest(ctx, out, fmt)
                    case = {'injector': 'faultfree', 'variant': variant, 'fmt': fmt, 'exists': exists}
                    failure = None
                    if variant == 'to_file_in_thread':
                        g = carts.make_game(regions, code=code, version=8)
                        box = []

                        def worker():
                            try:
                                p8file.to_file(g, out)
                            except BaseException as e:
                                box.append(e)
                        th = threading.Thread(target=worker)
                        th.start()
                        th.join(120)
                        if box:
                            failure = 'raised %r' % (box[0],)
                    else:
                        class Closed:
                            def write(self, s_):
                                raise ValueError('I/O operation on closed file')

                            def flush(self):
                                pass
                        saved = (util._write_stream, util._verbosity)
                        argv = {'luafmt': ['luafmt', inp], 'luamin': ['luamin', inp], 'writep8': ['writep8', inp],
                                'luafmt_overwrite': ['luafmt', '--overwrite', inp], 'build': ['build', out, '--lua', inp]}[cmd]
                        try:
                            util._write_stream = Closed()
                            util.set_verbosity(util.VERBOSITY_NORMAL)
                            rcode = tool.main(argv)
                            if rcode not in (0, None):
                                failure = 'returned %r' % (rcode,)
                        except BaseException as e:
                            failure = 'raised %r' % (e,)
                        finally:
                            util._write_stream = saved[0]
                            util._verbosity = saved[1]
                    ctx.case(repr(sorted(case.items())), nontrivial=True)
                    ctx.monitor('faultfree_calls')
                    ctx.feature('faultfree_variant:' + variant.split(':')[0])
                    if failure is not None:
                        ctx.monitor('faultfree_calls_that_failed')
                        dest.judge(case, '%s (no fault injected; it %s)' % (variant, failure))
                    shutil.rmtree(work, ignore_errors=True)
        # states of the library call itself: the Game names a file that is not there (any more), the destination is locked by another
        # open file, the Lua writer's output depends on the arguments it is given
        import fcntl
        from pico8.lua import lua as lua_mod

        class ArgsWriter(lua_mod.LuaEchoWriter):
            # a caller's writer: with {'banner': text} it puts the text before the code; the text given below is not Lua
            def to_lines(self):
                if self._args.get('banner'):
                    yield self._args['banner']
                for l in super().to_lines():
                    yield l
        for variant in ('game_filename_absent', 'game_filename_deleted_after_load', 'game_filename_is_directory', 'game_filename_other_cart',
                        'dest_flock_held', 'dest_lockf_held', 'writer_args_make_output_unparseable', 'writer_args_harmless'):
            for fmt in ('p8', 'png'):
                for exists in (False, True):
                    if only is not None:
                        continue
                    if variant.startswith('dest_') and not exists:
                        continue
                    n += 1
                    work = os.path.join(root, 'ffstate%d' % n)
                    os.makedirs(work)
                    ext = '.p8' if fmt == 'p8' else '.p8.png'
                    code = carts.varied_lua(rng, 200)
                    regions, _ = carts.random_regions(rng, 'sparse')
                    src = os.path.join(work, 'loaded' + ext)
                    with open(src, 'wb') as fh:
                        fh.write(rc.write_p8(regions, code, version=8) if fmt == 'p8' else rc.write_p8png(regions, rc.raw_code_area(code), 8))
                    out = os.path.join(work, 'saved' + ext)
                    if exists:
                        with open(out, 'wb') as fh:
                            fh.write(rc.write_p8(regions, b'old=1\n', version=8) if fmt == 'p8' else rc.write_p8png(regions, rc.raw_code_area(b'old=1\n'), 8))
                    g = p8file.from_file(src)
                    kw = {}
                    held = None
                    if variant == 'game_filename_absent':
                        g.filename = os.path.join(work, 'never-saved' + ext)
                    elif variant == 'game_filename_deleted_after_load':
                        os.remove(src)
                    elif variant == 'game_filename_is_directory':
                        g.filename = work
                    elif variant == 'game_filename_other_cart':
                        os.chmod(src, 0o400)
                    elif variant == 'dest_flock_held':
                        held = open(out, 'rb')
                        fcntl.flock(held, fcntl.LOCK_EX)
                    elif variant == 'dest_lockf_held':
                        held = open(out, 'r+b')
                        fcntl.lockf(held, fcntl.LOCK_EX)
                    elif variant == 'writer_args_make_output_unparseable':
                        kw = {'lua_writer_cls': ArgsWriter, 'lua_writer_args': {'banner': b'this = = is not lua (\n'}}
                    else:
                        kw = {'lua_writer_cls': ArgsWriter, 'lua_writer_args': {'banner': b'-- saved by a tool\n'}}
                    dest = PlainDest(ctx, out, fmt)
                    case = {'injector': 'faultfree', 'variant': variant, 'fmt': fmt, 'exists': exists}
                    failure = None
                    try:
                        p8file.to_file(g, out, **kw)
                    except BaseException as e:
                        failure = 'raised %r' % (e,)
                    finally:
                        if held is not None:
                            held.close()
                    ctx.case(repr(sorted(case.items())), nontrivial=True)
                    ctx.monitor('faultfree_calls')
                    ctx.feature('faultfree_variant:' + variant)
                    if failure is not None:
                        ctx.monitor('faultfree_calls_that_failed')
                        ctx.feature('faultfree_variant_failed:' + variant)
                        dest.judge(case, 'file.to_file (%s; no fault injected; it %s)' % (variant, failure))
                    elif variant == 'writer_args_make_output_unparseable' and fmt == 'p8':
                        # "the transformed code does not re-parse" is one of the failures the property names: the reference lexer/parser
                        # of this harness is not needed to know that `this = = is not lua (` is not Lua
                        ctx.feature('unparseable_writer_output_was_not_refused')
                        dest.judge(case, 're-parsing the transformed code (the writer puts its `banner` argument, which is not Lua, before the code; '
                                         'file.to_file returned normally)')
                    shutil.rmtree(work, ignore_errors=True)
    finally:
        os.chdir(here)
    ctx.sample({'faultfree': 'luamin / luafmt / writep8 / luafmt --overwrite / build / file.to_file on carts without code, destination spelled bare, '
                             './, sub/, ../ and absolute'})


QUIET = ['-q']          # the verbosity option the command-line entries are given (run_shard switches it per shard)
VERBOSITY = ['quiet']


def run_shard(spec, ctx):
    from .c03 import Verbosity
    rng = ctx.rng
    root = tempfile.mkdtemp(prefix='vf-c11-')
    fsmon.install()
    level = spec.get('verbosity', 'normal')
    QUIET[:] = ['--debug'] if level == 'debug' else ['-q']
    VERBOSITY[0] = level
    ctx.feature('verbosity_' + level)
    try:
        with Verbosity(level):
            {'stream': run_stream, 'writer_section': run_writer_section, 'png_rows': run_png_rows, 'cli': run_cli,
             'failpoints': run_failpoints, 'internal': run_internal, 'faultfree': run_faultfree, 'cli_more': run_cli_more}[spec['kind']](ctx, rng, spec, root)
    finally:
        QUIET[:] = ['-q']
        VERBOSITY[0] = 'quiet'
        shutil.rmtree(root, ignore_errors=True)


def replay(case, ctx):
    """Re-delivers the recorded fault (same injector, index / site, format, destination state, entry point) on a fresh
    destination and cart and applies the snapshot oracle."""
    import random
    from pico8.game import file as p8file
    from pico8.lua import lua
    rng = random.Random(7)
    root = tempfile.mkdtemp(prefix='vf-c11-')
    fsmon.install()
    try:
        fmt, exists, inj = case.get('fmt', 'p8'), case.get('exists', True), case['injector']
        if inj.startswith('rom_'):
            run_internal(ctx, rng, {}, root)      # (the internal failure sources as a whole: the .rom cases are among them)
            return
        if inj in ('batch_one_cart_fails', 'cli_lua_writer', 'cli_unparseable_output'):
            run_cli_more(ctx, rng, {}, root)      # (the whole small grid: the recorded case is one of its cells)
            return
        if inj == 'faultfree' and 'variant' in case:
            run_faultfree(ctx, rng, {}, root)       # (the whole grid: the recorded variant is part of it)
            return
        if inj == 'faultfree':
            run_faultfree(ctx, rng, {}, root, only=(case['code_kind'], fmt, case['cmd'], case['spelling'], exists))
            return
        entry = case.get('entry', 'file')
        dest = Dest(ctx, rng, fmt, exists, root, empty=case.get('empty', False), hardlink=case.get('hardlink', False))
        g = new_game(rng)
        call = (lambda: p8file.to_file(g, dest.path)) if entry == 'file' else cli_call(entry, dest, root)
        if inj == 'stream':
            with faults.StreamFaultPatch(fmt_class(fmt), case['k']):
                attempt(ctx, dest, call, case, 'stream')
        elif inj in ('lua_writer', 'unparseable_output'):
            import builtins
            W = faults.failing_writer_cls(getattr(lua, case['base']), case.get('k', 1), garbage=inj == 'unparseable_output',
                                          exc=getattr(builtins, case['exc']) if case.get('exc') else None)
            attempt(ctx, dest, lambda: p8file.to_file(g, dest.path, lua_writer_cls=W), case, inj)
        elif inj == 'section':
            orig = getattr(g, case['section'])
            setattr(g, case['section'], faults.FailingSection(orig, case['k']))
            attempt(ctx, dest, call, case, 'section')
        elif inj == 'png_encoder':
            with faults.PngWriterFault(case['k']):
                attempt(ctx, dest, call, case, 'png_encoder')
        elif inj == 'failpoint':
            spec = {'fmt': fmt, 'exists': exists, 'entry': entry, 'random': 0, 'only_site': tuple(case['site'])}
            shutil.rmtree(dest.dir, ignore_errors=True)
            run_failpoints(ctx, rng, spec, root)
    finally:
        shutil.rmtree(root, ignore_errors=True)


def gates(m, tier):
    f, mon = m['features'], m['monitors']
    missed = []
    for k in ('internal_failures_absent', 'internal_failures_exists', 'internal_failures_readonly', 'readonly_destination',
              'internal_failures_zero_length', 'zero_length_destination', 'verbosity_debug'):
        if f.get(k, 0) < 1:
            missed.append('%s never driven' % k)
    for inj in ('stream', 'lua_writer', 'section', 'png_encoder', 'failpoint', 'unparseable_output', 'oversize_code', 'missing_names_file',
                'build_unparseable_source', 'build_missing_require', 'unparseable_own_tokens', 'explicit_label_then_failure',
                'batch_one_cart_fails', 'cli_lua_writer', 'cli_unparseable_output', 'build_source_cart_does_not_load', 'rom_destination'):
        if mon.get('faults_delivered:' + inj, 0) < 1:
            missed.append('no fault delivered by injector %s' % inj)
    for inj in ('stream', 'lua_writer', 'section', 'failpoint'):
        for fmt in ('p8', 'png'):
            for ex in ('exists', 'absent'):
                if f.get('delivered:%s:%s:%s' % (inj, fmt, ex), 0) < 1:
                    missed.append('no %s fault delivered for %s/%s' % (inj, fmt, ex))
    for fmt in ('p8', 'png'):
        # six stream shards per format (destination exists / absent / read-only / zero-length; exists and absent again at debug verbosity); each enumerates every write index
        if f.get('stream_enumeration_complete:' + fmt, 0) < 6:
            missed.append('stream write index enumeration for %s completed in %d of 6 shards' % (fmt, f.get('stream_enumeration_complete:' + fmt, 0)))
    hit, total = mon.get('failpoint_sites_hit', 0), mon.get('failpoint_sites_in_fault_free_run', 0)
    if total == 0 or hit < 0.85 * total:
        missed.append('failpoint sites hit %d of %d (<85%%)' % (hit, total))
    for e in ('luamin_fmt', 'luafmt_fmt', 'writep8_fmt'):
        if f.get('cli_%s_stream_index' % e, 0) < 8:
            missed.append('CLI %s under-driven' % e)
    if f.get('writer_exception_types', 0) < 40 or f.get('stale_fmt_file_next_to_cart', 0) < 1:
        missed.append('writer exception types %d, stale _fmt bystander %d' % (f.get('writer_exception_types', 0), f.get('stale_fmt_file_next_to_cart', 0)))
    if f.get('cli_first_invocation_fails', 0) < 10:
        missed.append('first-ever invocation on a cart fails: %d' % f.get('cli_first_invocation_fails', 0))
    for v in ('game_filename_absent', 'game_filename_deleted_after_load', 'game_filename_is_directory', 'dest_flock_held', 'dest_lockf_held',
              'writer_args_make_output_unparseable', 'writer_args_harmless'):
        if f.get('faultfree_variant:' + v, 0) < 2:
            missed.append('fault-free library state %s seen %d times' % (v, f.get('faultfree_variant:' + v, 0)))
    if f.get('faultfree_variant_failed:writer_args_make_output_unparseable', 0) < 1:
        missed.append('the writer whose arguments make its output unparseable never made a save fail')
    if f.get('faultfree_variant:to_file_in_thread', 0) < 4 or f.get('faultfree_variant:stdout_closed', 0) < 10:
        missed.append('fault-free calls from a worker thread: %d, with the output stream closed: %d' % (
            f.get('faultfree_variant:to_file_in_thread', 0), f.get('faultfree_variant:stdout_closed', 0)))
    low = [k for k in (['faultfree_code_kind:' + c for c in FF_CODES] + ['faultfree_spelling:' + c for c in FF_SPELLINGS] +
                       ['faultfree_cmd:' + c for c in FF_COMMANDS] + ['faultfree_dest_exists', 'faultfree_dest_absent']) if f.get(k, 0) < 10]
    if low or mon.get('faultfree_calls', 0) < 200:
        missed.append('fault-free calls on unusual carts / destination spellings: %d (under-driven: %s)' % (mon.get('faultfree_calls', 0), low))
    if f.get('hard_linked_destination', 0) < 2:
        missed.append('hard-linked destinations: %d' % f.get('hard_linked_destination', 0))
    if f.get('cli_luafmt_stream_index', 0) < 5 or f.get('cli_build_stream_index', 0) < 5:
        missed.append('CLI overwrite paths under-driven')
    return missed
