"""C03 — .p8 text cart write/read round trip preserves the whole cart.

Monitor: carts built through the public API are written by the real P8Formatter / file.to_file / `p8tool writep8`
and read back; every observable of the re-read cart is compared with the original (regions byte for byte, music
modulo the one bit the text format cannot carry, label bytes or absence, version, code modulo the one supplied
final newline), the second write must be byte-identical to the first, and in parallel the independent reference
reader (vf.refcodec.read_p8) must see the same memory in the written file.
"""
import io
import os
import shutil
import tempfile

from .. import carts
from .. import refcodec as rc

LEVEL = 'exploration'
RULE = ('carts with uniform / sparse / structured / all-zero / all-0xff regions, label present or absent, versions 0..2^31, Lua sources '
        '{empty, no final newline, LF, CRLF, simple programs, lines carrying all 256 P8SCII byte values in comments, quoted strings, long strings '
        'and identifiers} x entry {P8Formatter on BytesIO, file.to_file/from_file on a path, `p8tool writep8`}; non-trivial: any non-zero region byte '
        'or non-empty code; distinct by hash of (memory, label, version, code)')
ASSUMPTIONS = [
    'sources containing a line that reads as a `__section__` header are excluded, as the property says',
    'string spellings are compared as the library exposes them before and after (to_lines of both carts); the exactness of re-spelling is C06',
    'bit 7 of every 4th music byte is generated randomly and masked in the comparison (excepted by the property)',
]
EXHAUSTIVE = {'quick': False, 'thorough': False}
PYOPT_KINDS = (None,)
CLOCALE_KINDS = (None,)


def plan(tier, seed):
    n = 16 if tier == 'quick' else 64
    return [{'count': 60 if tier == 'quick' else 400} for _ in range(n)]


def make_code(rng, ctx):
    k = rng.randrange(10)
    if k == 9:
        # long strings and block comments: text beginning with several line breaks, lower-level closers inside, glyphs on later lines
        ctx.feature('code_long_strings')
        parts = []
        for _ in range(rng.randint(1, 4)):
            lvl = b'=' * rng.choice((0, 0, 1, 2))
            body = rng.choice((b'\n\ntext', b'\n\n\n', b'\r\n\r\nx', b'\nx', b'x\n\ny', b']' + b'x', b'a]]b' if lvl else b'ab', b'\x8e\n\x97',
                               # (inner lines that look like comments of their own)
                               b'off\n-- hud\n', b'\n  -- indented\n// too\n', b'a\n--[[ b\nc',
                               # (text ending in a bracket, as serialised tables do: the closing level is what keeps it apart)
                               b'{1,2,[3,4]' if lvl else b'{1,2,[3,4] ', b't[i]' if lvl else b't[i', b'x]=]' if len(lvl) == 2 else b'x=',
                               b']' if lvl else b'[', b'a[[b]' if lvl else b'a[[b'))
            parts.append(rng.choice((b's=', b'--')) + b'[' + lvl + b'[' + body + b']' + lvl + b']\n')
        return b''.join(parts) + carts.simple_lua(rng, 40)
    if k == 0:
        ctx.feature('code_empty')
        return b''
    if k == 1:
        ctx.feature('code_no_final_newline')
        return carts.simple_lua(rng, 80).rstrip(b'\n')
    if k == 2:
        ctx.feature('code_crlf')
        return carts.bytes_lua(rng, rng.randint(1, 20), crlf=True)
    if k in (3, 4, 5):
        ctx.feature('code_all_bytes')
        return carts.bytes_lua(rng, rng.randint(1, 40))
    if k == 6:
        ctx.feature('code_glyph_program')
        return carts.simple_lua(rng, rng.choice((100, 3000)), glyphs=True)
    if k == 7:
        ctx.feature('code_blank_lines_only')
        return b'\n' * rng.randint(1, 4)
    ctx.feature('code_simple')
    code = carts.varied_lua(rng, rng.choice((30, 500, 5000)))
    if rng.random() < 0.3:
        # the text of a long-bracket opener where it opens nothing - in a quoted string, in a line comment - with nothing after it
        # that would close it: the sections that follow the code in the file are still sections
        ctx.feature('code_ends_with_an_opener_that_opens_nothing')
        code = code.rstrip(b'\n') + b'\n' + rng.choice((b'open="[["\n', b"mark='[==['\n", b'x=1 -- see [[\n', b'// [=[\n', b'y=t[ [1]\n' if False else b'z="--[["\n'))
    return code


def observables(g):
    regs = carts.game_regions(g)
    regs['music'] = rc.music_mask(regs['music'])
    return {
        'regions': regs,
        'label': bytes(g.label.to_bytes()) if g.label is not None else None,
        'version': g.version,
        'code': b''.join(g.lua.to_lines()),
    }


def compare(ctx, a, b, what, case):
    for name, _ in rc.REGIONS:
        ctx.monitor('region_comparisons')
        x, y = a['regions'][name], b['regions'][name]
        if x != y:
            d = next((i for i in range(min(len(x), len(y))) if x[i] != y[i]), min(len(x), len(y)))
            ctx.violation('%s: region %s differs at 0x%x (%s -> %s; lengths %d/%d)' % (
                what, name, d, '%02x' % x[d] if d < len(x) else '-', '%02x' % y[d] if d < len(y) else '-', len(x), len(y)), case)
            return False
    if a['label'] != b['label']:
        ctx.violation('%s: label %s' % (what, 'lost' if b['label'] is None else 'appeared' if a['label'] is None else 'changed'), case)
        return False
    if a['version'] != b['version']:
        ctx.violation('%s: version %r -> %r' % (what, a['version'], b['version']), case)
        return False
    ca = a['code']
    want = ca if (ca.endswith(b'\n') or ca == b'' and b['code'] == b'') else ca + b'\n'
    # an empty program is written as an empty line: accept b'' -> b'\n' too (the supplied final newline)
    if b['code'] != want and not (ca == b'' and b['code'] in (b'', b'\n')):
        d = next((i for i in range(min(len(want), len(b['code']))) if want[i] != b['code'][i]), min(len(want), len(b['code'])))
        ctx.violation('%s: code differs at byte %d: %r -> %r' % (what, d, want[max(0, d - 20):d + 20], b['code'][max(0, d - 20):d + 20]), case)
        return False
    return True


def edit_cart(rng, g, ctx):
    """Edits through the section APIs between two saves of the same Game object."""
    for _ in range(rng.randint(1, 6)):
        k = rng.randrange(7)
        try:
            if k == 0:
                g.map.set_cell(rng.randrange(128), rng.randrange(32, 64), rng.randrange(256))
                ctx.feature('edit_map_lower_half')
            elif k == 1:
                g.map.set_cell(rng.randrange(128), rng.randrange(32), rng.randrange(256))
            elif k == 2:
                g.gfx.set_sprite(rng.randrange(256), [[rng.randrange(16) for _ in range(8)] for _ in range(8)])
            elif k == 3:
                g.map.set_rect_tiles([[rng.randrange(256) for _ in range(rng.randint(1, 8))] for _ in range(rng.randint(1, 4))],
                                     rng.randrange(100), rng.randrange(28, 60))
                ctx.feature('edit_map_lower_half')
            elif k == 4:
                g.gff.set_flags(rng.randrange(256), rng.randrange(256))
            elif k == 5:
                g.sfx.set_note(rng.randrange(64), rng.randrange(32), pitch=rng.randrange(64), waveform=rng.randrange(8),
                               volume=rng.randrange(8), effect=rng.randrange(8))
            else:
                g.write_cart_data(carts.random_bytes(rng, rng.randint(1, 64)), rng.randrange(0x4200))
        except Exception:
            ctx.feature('edit_rejected_by_api')


class Verbosity:
    """Runs a block with picotool's verbosity level set and its message streams captured; restores both."""

    def __init__(self, level):
        self.level = level

    def __enter__(self):
        from pico8 import util
        self.saved = (util._verbosity, util._write_stream, util._error_stream)
        util._write_stream = io.StringIO()
        util._error_stream = io.StringIO()
        util.set_verbosity({'quiet': util.VERBOSITY_QUIET, 'normal': util.VERBOSITY_NORMAL, 'debug': util.VERBOSITY_DEBUG}[self.level])
        return self

    def __exit__(self, *a):
        from pico8 import util
        util._verbosity, util._write_stream, util._error_stream = self.saved
        return False


READ_BACK = ('from_start', 'at_offset', 'forward_only', 'no_includes')


class _ForwardOnly(io.RawIOBase):
    """what a pipe or a socket is: readable, not seekable"""

    def __init__(self, data):
        self._d = data
        self._i = 0

    def readable(self):
        return True

    def seekable(self):
        return False

    def seek(self, *a):
        raise io.UnsupportedOperation('seek')

    def tell(self):
        raise io.UnsupportedOperation('tell')

    def readinto(self, b):
        n = min(len(b), len(self._d) - self._i, 4096)
        b[:n] = self._d[self._i:self._i + n]
        self._i += n
        return n


def one_cart(ctx, rng, workdir):
    verbosity = rng.choice(('normal', 'normal', 'quiet', 'debug', 'debug'))
    ctx.feature('verbosity_' + verbosity)
    with Verbosity(verbosity):
        _one_cart(ctx, rng, workdir, verbosity)


def _one_cart(ctx, rng, workdir, verbosity):
    from pico8.game.formatter.p8 import P8Formatter
    from pico8.game import file as p8file
    from pico8 import tool
    from pico8.lua.lua import Lua
    regions, mode = carts.random_regions(rng)
    label = None
    if rng.random() < 0.5:
        label = carts.random_bytes(rng, 8192) if rng.random() < 0.8 else bytes(8192)
    version = rng.choice((0, 1, 8, 33, 41, 2 ** 31, rng.randrange(2 ** 31)))
    code = make_code(rng, ctx)
    entry = rng.choice(('stream', 'stream', 'path', 'cli'))
    foreign_lua = rng.random() < 0.25
    resave = entry != 'cli' and rng.random() < 0.35
    case = {'regions': regions, 'label': label, 'version': version, 'code': code, 'entry': entry, 'verbosity': verbosity,
            'foreign_lua': foreign_lua}
    nontrivial = bool(code) or any(any(v) for v in regions.values())
    ctx.case((rc.join_memory(regions), label, version, code), nontrivial=nontrivial)
    ctx.feature('regions_' + mode)
    ctx.feature('label_present' if label is not None else 'label_absent')
    ctx.feature('entry_' + entry)
    for name, _ in rc.REGIONS:
        for b in set(regions[name]):
            ctx.extra.setdefault('bytes_' + name, set()).add(b)
    try:
        g = carts.make_game(regions, code=code, version=version, label=label)
    except Exception as e:
        ctx.inconclusive_because('generator produced code picotool does not lex: %r %r' % (e, code[:80]))
        return
    if foreign_lua:
        # the cart's version and the version its code object was made for are independent attributes (a version-0 cart whose code
        # was replaced with Lua.from_lines(..., version=DEFAULT) as the build tool does): the file carries the cart's version
        try:
            g.lua = Lua.from_lines([code], version=rng.choice((33, 8, 41, 0)))
            ctx.feature('code_object_of_another_version')
            if version == 0:
                ctx.feature('version0_cart_with_foreign_code_object')
        except Exception as e:
            ctx.inconclusive_because('generator produced code picotool does not lex: %r' % (e,))
            return
    if rng.random() < 0.15:
        # the cart's sprite sheet is replaced by another Gfx object (the library allows assigning sections; the map keeps the object
        # it was created with): the cart's gfx is what game.gfx holds now
        from pico8.gfx.gfx import Gfx
        g.gfx = Gfx.from_bytes(carts.random_bytes(rng, 8192), version=version or 8)
        ctx.feature('gfx_object_replaced')
        case['history'] = 'game.gfx was replaced by another Gfx object before saving'
    if rng.random() < 0.15:
        # a section object made for another data version than the cart's (the factories default to old versions; a section taken over
        # from another cart): the cart's bytes are what the object holds, its file is the cart's
        from pico8.gff.gff import Gff
        from pico8.sfx.sfx import Sfx
        from pico8.music.music import Music
        from pico8.map.map import Map
        secname = rng.choice(('gff', 'sfx', 'music', 'map'))
        cls_ = {'gff': Gff, 'sfx': Sfx, 'music': Music, 'map': Map}[secname]
        cur = bytes(getattr(g, secname).to_bytes())
        other_v = rng.choice([v for v in (4, 8, 15, 16, 33) if v != version])
        if secname == 'map':
            g.map = Map.from_bytes(cur, version=other_v, gfx=g.gfx)
        else:
            setattr(g, secname, cls_.from_bytes(cur, version=other_v))
        ctx.feature('section_object_of_another_version')
        case['history'] = (case.get('history', '') + '; ' if case.get('history') else '') + 'game.%s replaced by an object made for version %d' % (secname, other_v)
    if resave:
        # HISTORY: the same Game object was saved before, then edited through the APIs, and is saved again
        try:
            P8Formatter.to_file(g, io.BytesIO())
            if rng.random() < 0.5:
                list(g.gfx.to_lines())
                list(g.map.to_lines())
        except Exception as e:
            ctx.violation('first save raised %r' % (e,), case)
            return
        edit_cart(rng, g, ctx)
        ctx.feature('saved_edited_saved_again')
        case['history'] = 'saved, edited through the APIs, saved again (replay rebuilds only the final state)'
    a = observables(g)
    try:
        if entry == 'stream':
            buf = io.BytesIO()
            P8Formatter.to_file(g, buf)
            data1 = buf.getvalue()
            # the stream the cart is read back from: from its start, from the position the cart was written at behind other data,
            # a forward-only stream (a pipe), and with the include pass switched off (the code has no directives)
            how = READ_BACK[case.setdefault('read_back', rng.randrange(len(READ_BACK)))]
            ctx.feature('read_back:' + how)
            if how == 'at_offset':
                prefix = b'#!shebang or container header\n\x00\x89PNG\r\n' * rng.randint(1, 3)
                st = io.BytesIO()
                st.write(prefix)
                P8Formatter.to_file(g, st)
                if st.getvalue()[len(prefix):] != data1:
                    ctx.violation('the bytes written behind other data in a stream differ from those written to an empty one', case)
                    return
                st.seek(len(prefix))
                g2 = P8Formatter.from_file(st)
            elif how == 'forward_only':
                g2 = P8Formatter.from_file(io.BufferedReader(_ForwardOnly(data1)))
            elif how == 'no_includes':
                g2 = P8Formatter.from_file(io.BytesIO(data1), do_includes=False)
            else:
                g2 = P8Formatter.from_file(io.BytesIO(data1))
            buf2 = io.BytesIO()
            P8Formatter.to_file(g2, buf2)
            data2 = buf2.getvalue()
        elif entry == 'path':
            base = carts.cart_basename(rng.randrange(64))
            ctx.feature('file_name:' + base)
            p1 = os.path.join(workdir, base + '.p8')
            p2 = os.path.join(workdir, base + '-copy.p8')
            # what is at the destination before: nothing, an empty file (mkstemp, touch), some other file, an older cart
            for pth in (p1, p2):
                if os.path.exists(pth):
                    os.remove(pth)
            before = ('nothing', 'empty_file', 'other_file', 'older_cart')[case.setdefault('dest_before', rng.randrange(4))]
            ctx.feature('destination_before:' + before)
            if before != 'nothing':
                with open(p1, 'wb') as fh:
                    fh.write({'empty_file': b'', 'other_file': b'notes to self\n', 'older_cart': rc.write_p8(carts.random_regions(rng, 'sparse')[0], b'old=1\n', version=8)}[before])
            p8file.to_file(g, p1)
            data1 = open(p1, 'rb').read()
            g2 = p8file.from_file(p1)
            p8file.to_file(g2, p2)
            data2 = open(p2, 'rb').read()
            if rng.random() < 0.3:
                # HISTORY: the cart loaded from p1 was saved under another name (above), is edited, and saved under that name again:
                # the file has to hold the cart as it is now
                g3 = p8file.from_file(p1)
                p8file.to_file(g3, p2)
                edit_cart(rng, g3, ctx)
                p8file.to_file(g3, p2)
                ctx.feature('loaded_saved_elsewhere_edited_saved_again')
                if not compare(ctx, observables(g3), observables(p8file.from_file(p2)), 'loaded from one file, saved to another, edited, saved again -> read', case):
                    return
                os.remove(p2)
        else:
            base = carts.cart_basename(rng.randrange(64))
            ctx.feature('file_name:' + base)
            p1 = os.path.join(workdir, base + '.p8')
            p8file.to_file(g, p1)
            data1 = open(p1, 'rb').read()
            rcode = tool.main({'quiet': ['-q'], 'debug': ['--debug'], 'normal': []}[verbosity] + ['writep8', p1])
            if rcode != 0:
                ctx.violation('p8tool writep8 returned %r' % rcode, case)
                return
            pf = os.path.join(workdir, base + '_fmt.p8')
            data2 = open(pf, 'rb').read()
            g2 = p8file.from_file(pf)
            ctx.monitor('cli_writep8_runs')
    except Exception as e:
        ctx.violation('write/read raised %r' % (e,), case)
        return
    ctx.monitor('round_trips_observed')
    b = observables(g2)
    if not compare(ctx, a, b, 'write->read', case):
        return
    if data2 != data1:
        d = next((i for i in range(min(len(data1), len(data2))) if data1[i] != data2[i]), min(len(data1), len(data2)))
        ctx.violation('second write is not byte-identical (first difference at %d: %r vs %r)' % (
            d, data1[max(0, d - 20):d + 20], data2[max(0, d - 20):d + 20]), case)
        return
    ctx.monitor('rewrites_compared')
    # independent reader on the written file
    try:
        ref = rc.read_p8(data1)
    except Exception as e:
        ctx.violation('reference reader cannot read the written file: %r' % (e,), case)
        return
    refobs = {'regions': {n: (ref[n] if n != 'music' else rc.music_mask(ref[n])) for n, _ in rc.REGIONS},
              'label': ref['label'], 'version': ref['version'], 'code': ref['code']}
    ctx.monitor('reference_reads_compared')
    if not compare(ctx, a, refobs, 'write->reference reader', case):
        return
    # the code of the cart is the text it was given: what comes back is that text token for token (the writer may re-spell a quoted
    # string, C06; everything else is byte for byte), judged by the reference lexer
    from .. import reflex
    from .c06 import compare_echo
    if not resave and code and reflex.try_lex(code)[1] is None:
        ctx.monitor('reread_code_compared_with_given_text')
        compare_echo(ctx, code if (code.endswith(b'\n') or not code) else code + b'\n', b['code'], case, 'code of the re-read cart (vs the text the cart was made from)')
    else:
        ctx.feature('given_text_not_compared')


def run_shard(spec, ctx):
    rng = ctx.rng
    workdir = tempfile.mkdtemp(prefix='vf-c03-')
    try:
        for i in range(spec['count']):
            one_cart(ctx, rng, workdir)
        ctx.sample({'code_sample': carts.bytes_lua(rng, 3)})
    finally:
        shutil.rmtree(workdir, ignore_errors=True)
    for k in list(ctx.extra):
        if k.startswith('bytes_'):
            ctx.extra[k] = sorted(ctx.extra[k])


def replay(case, ctx):
    # rebuild the cart and run the stream entry (all entries share the formatter) under the recorded verbosity
    from pico8.game.formatter.p8 import P8Formatter
    from pico8.lua.lua import Lua
    with Verbosity(case.get('verbosity', 'normal')):
        g = carts.make_game(case['regions'], code=case['code'], version=case['version'], label=case['label'])
        if case.get('foreign_lua'):
            g.lua = Lua.from_lines([case['code']], version=33 if case['version'] != 33 else 8)
        a = observables(g)
        buf = io.BytesIO()
        P8Formatter.to_file(g, buf)
        g2 = P8Formatter.from_file(io.BytesIO(buf.getvalue()))
        ctx.case(case['code'])
        if compare(ctx, a, observables(g2), 'write->read', case):
            buf2 = io.BytesIO()
            P8Formatter.to_file(g2, buf2)
            if buf2.getvalue() != buf.getvalue():
                ctx.violation('second write is not byte-identical', case)


def gates(m, tier):
    f, mon = m['features'], m['monitors']
    missed = []
    for k in ('code_empty', 'code_no_final_newline', 'code_crlf', 'code_all_bytes', 'code_glyph_program', 'code_simple',
              'label_present', 'label_absent', 'entry_stream', 'entry_path', 'entry_cli', 'regions_uniform', 'regions_sparse',
              'regions_structured', 'regions_zero', 'regions_ff', 'regions_defaultish'):
        if f.get(k, 0) < 5:
            missed.append('%s seen %d times' % (k, f.get(k, 0)))
    for k in ('code_long_strings', 'section_object_of_another_version', 'gfx_object_replaced', 'verbosity_debug', 'verbosity_quiet', 'verbosity_normal', 'saved_edited_saved_again', 'edit_map_lower_half',
              'code_object_of_another_version', 'version0_cart_with_foreign_code_object'):
        if f.get(k, 0) < 10:
            missed.append('%s seen %d times' % (k, f.get(k, 0)))
    if f.get('code_ends_with_an_opener_that_opens_nothing', 0) < 5:
        missed.append('code ending with an opener that opens nothing: %d' % f.get('code_ends_with_an_opener_that_opens_nothing', 0))
    for k in ('destination_before:nothing', 'destination_before:empty_file', 'destination_before:other_file', 'destination_before:older_cart',
              'loaded_saved_elsewhere_edited_saved_again'):
        if f.get(k, 0) < 3:
            missed.append('%s seen %d times' % (k, f.get(k, 0)))
    for how in READ_BACK:
        if f.get('read_back:' + how, 0) < 5:
            missed.append('read_back:%s seen %d times' % (how, f.get('read_back:' + how, 0)))
    names = [k for k in f if k.startswith('file_name:')]
    if len(names) < len(carts.CART_BASENAMES):
        missed.append('file base names used: %d of %d' % (len(names), len(carts.CART_BASENAMES)))
    if mon.get('round_trips_observed', 0) < 200 or mon.get('reference_reads_compared', 0) < 200:
        missed.append('too few round trips observed')
    for name, _ in rc.REGIONS:
        seen = set()
        for ex in m['extra']:
            seen.update(ex.get('bytes_' + name, []))
        m['features']['byte_values_seen_in_' + name] = len(seen)
        if len(seen) < 256:
            missed.append('only %d byte values seen in %s' % (len(seen), name))
    for ex in m['extra']:
        for name, _ in rc.REGIONS:
            ex.pop('bytes_' + name, None)
    return missed
