"""C01 — luamin keeps the program: same tokens modulo renaming, nothing glued.

Monitor: the real minifier (Lua.to_lines(writer_cls=LuaMinifyTokenWriter), `p8tool luamin`, `p8tool build --lua-minify`)
runs on generated programs in random layouts; input and output are lexed by the reference lexer and aligned
(vf.minify.align): same number of significant tokens, keywords/symbols byte-equal, numbers equal as exact
fractions, strings equal as decoded bytes, names position-wise related (the relation itself is C02's subject);
no output comment beyond the two header comments; every line scope (short-if, `?`, compound assignment) still
ends where it ended; picotool's own token count (what `stats` reports) unchanged after re-parsing the output.
"""
import json
import os
import shutil
import tempfile

from .. import progen, layout, reflex, minify, carts
from .. import ambient
from .. import refcodec as rc

LEVEL = 'exploration'
RULE = ('generated dialect programs (depth 1-3, thorough to 5, every literal form) x layouts {tight, normal, one-statement-per-line, wild, '
        'pair-directed "spaced" = exactly one space between any two tokens} x LF/CRLF x configurations {default, --keep-all-names, '
        '--keep-names-from-file}; library path for all, `p8tool luamin` and `build --lua-minify` for a sample. The ordered pairs of adjacent token '
        'classes observed are measured against the committed grammatical adjacency table (vf/data/adjacency.json). Non-trivial: >= 8 significant '
        'tokens; distinct by (source, configuration) hash')
ASSUMPTIONS = [
    'number equality is exact (Fraction) under the reference numeral grammar; strings by decoded bytes',
    'the adjacency table is what the generator grammar can make adjacent (1817 class pairs mined from 30,000 programs)',
    'build --lua-minify is driven in the default configuration only (it does not take the keep options; the statement speaks of luamin)',
]
EXHAUSTIVE = {'quick': False, 'thorough': False}
PYOPT_KINDS = (None,)
CLOCALE_KINDS = (None,)
KNOWN_KEYS = {'glue-minus-minus', 'glue-number-dotdot', 'glue-dotdot-dot', 'glue-bracket-longstring'}
CONFIGS = ('default', 'keep_all', 'keep_file')
STAT_FEATS = ['StatAssignment', 'StatAssignment:compound', 'StatFunctionCall', 'StatDo', 'StatWhile', 'StatRepeat', 'StatIf', 'StatForStep',
              'StatForIn', 'StatFunction', 'StatLocalFunction', 'StatLocalAssignment', 'StatGoto', 'StatLabel', 'StatBreak', 'StatReturn']


def load_table():
    here = os.path.dirname(os.path.dirname(os.path.abspath(__file__)))
    with open(os.path.join(here, 'data', 'adjacency.json')) as fh:
        return {tuple(p) for p in json.load(fh)['pairs']}


def plan(tier, seed):
    n = 16 if tier == 'quick' else 64
    specs = [{'count': 160 if tier == 'quick' else 900, 'cli': i < 3, 'deep': tier == 'thorough' and i % 4 == 1,
              'spaced_bias': i % 2 == 0} for i in range(n)]
    for i in range(4):
        specs.append({'kind': 'strings', 'slice': [i, 4]})
    specs.append({'kind': 'numbers'})
    for i in range(2 if tier == 'quick' else 8):
        specs.append({'kind': 'big', 'count': 2, 'bias': ('shortif', 'mixed')[i % 2]})
    return specs


def wordlike(t):
    return t.kind in ('name', 'keyword', 'number')


def glue_key(a, b):
    """Mechanism for two input tokens that fuse when written with nothing between them."""
    if a.raw == b'-' and b.raw == b'-':
        return 'glue-minus-minus'
    if a.kind == 'number' and b.raw[:1] == b'.':
        return 'glue-number-dotdot'
    if a.raw in (b'..', b'...', b'.') and b.raw[:1] == b'.':
        return 'glue-dotdot-dot'
    if a.raw == b'[' and b.kind == 'string' and b.long:
        return 'glue-bracket-longstring'
    return None


def classify(src, problem):
    """Attribute a C01 failure to a glue mechanism only if an input token pair at the point of divergence fuses."""
    sin = reflex.sig(reflex.lex(src))
    bad = []
    for k in range(len(sin) - 1):
        a, b = sin[k], sin[k + 1]
        if wordlike(a) and wordlike(b):
            continue
        if not layout.glue_ok(a.raw, b.raw):
            bad.append((k, glue_key(a, b)))
    if not bad:
        return None
    where, desc, toks = problem
    if where == 'lex':
        return bad[0][1]
    if toks is not None and toks[1] is not None:
        # index of the first mismatching input token
        idx = next((i for i, t in enumerate(sin) if t is toks[1]), None)
        for k, key in bad:
            if idx is not None and k <= idx <= k + 1 + 1:
                return key
        # a fused pair earlier in the text shifts everything after it
        if idx is not None and bad[0][0] <= idx:
            return bad[0][1]
    return None


def check_program(ctx, src, p, config, keep_names, workdir, cli):
    from pico8.lua import lua
    case = {'src': src, 'config': config, 'keep_names': keep_names, 'scopes': [list(s) for s in p.scopes]}
    sin = reflex.sig(reflex.lex(src))
    ctx.case((src, config), nontrivial=len(sin) >= 8)
    ctx.feature('config:' + config)
    for f in p.feats:
        if f in STAT_FEATS or f in ('shortif', 'qprint', 'table-method-with-block-then-line-scope', 'num:random'):
            ctx.feature(f)
    seen = ctx.extra.setdefault('pairs', set())
    for a, b in zip(sin, sin[1:]):
        seen.add((minify.token_class(a), minify.token_class(b)))
    keep_file = None
    if config == 'keep_file':
        keep_file = os.path.join(workdir, 'keep.txt')
        minify.write_keep_file(keep_file, keep_names, ctx.rng)
    try:
        L, out = minify.minify_lib(src, config, keep_file)
    except Exception as e:
        ctx.violation('luamin raised %r on a valid program' % (e,), case)
        return
    ctx.monitor('minifier_runs')
    problem, pairs, info = minify.align(src, out, p.scopes)
    ctx.monitor('tokens_aligned', len(sin))
    if problem is not None:
        ctx.violation('library path: ' + problem[1], case, key=classify(src, problem))
        return
    ctx.monitor('line_scopes_checked', len([s for s in p.scopes if s[2] != 'tight']))
    try:
        before = L.get_token_count()
        after = lua.Lua.from_lines([out], version=ambient.VERSION[0]).get_token_count()
    except Exception as e:
        ctx.violation('minified code does not re-parse: %r' % (e,), case)
        return
    ctx.monitor('token_counts_compared')
    if before != after:
        ctx.violation('token count reported by stats changed %d -> %d' % (before, after), case)
        return
    if cli and b'\r' not in src:
        check_cli(ctx, src, p, config, keep_file, workdir, case)


def check_cli(ctx, src, p, config, keep_file, workdir, case):
    from pico8 import tool
    regions, _ = carts.random_regions(ctx.rng, 'sparse')
    p1 = os.path.join(workdir, ambient.BASE[0] + '.p8')
    pf = os.path.join(workdir, ambient.BASE[0] + '_fmt.p8')
    for f in (p1, pf):
        if os.path.exists(f):
            os.remove(f)
    with open(p1, 'wb') as fh:
        fh.write(rc.write_p8_variant(ctx.rng, regions, src, version=ambient.VERSION[0]))
    argv = [ambient.vflag(), 'luamin']
    if config == 'keep_all':
        argv.append('--keep-all-names')
    elif config == 'keep_file':
        argv += ['--keep-names-from-file', keep_file]
    want = src if src.endswith(b'\n') else src + b'\n'
    try:
        rcode = tool.main(argv + [p1])
        got = rc.read_p8(open(pf, 'rb').read())['code']
    except BaseException as e:
        ctx.violation('p8tool luamin failed: %r' % (e,), case)
        return
    ctx.monitor('cli_luamin_runs')
    if rcode:
        ctx.violation('p8tool luamin returned %r' % rcode, case)
        return
    problem, pairs, info = minify.align(want, got, p.scopes)
    if problem is not None:
        ctx.violation('p8tool luamin: ' + problem[1], case, key=classify(want, problem))
        return
    # the number `p8tool stats` prints for the cart before and after (every third command-line case: stats also compresses the code)
    if ctx.monitors.get('cli_luamin_runs', 0) % 3 == 1:
        try:
            s_in, s_out = minify.stats_cli(p1), minify.stats_cli(pf)
        except BaseException as e:
            ctx.violation('p8tool stats failed: %r' % (e,), case)
            return
        ctx.monitor('cli_stats_compared')
        if s_in['tokens'] is None or s_in['tokens'] != s_out['tokens']:
            ctx.violation('`p8tool stats` reports %r tokens for the cart and %r for its minified form' % (s_in['tokens'], s_out['tokens']), case)
            return
    if config == 'default':
        out2 = os.path.join(workdir, 'b.p8')
        if os.path.exists(out2):
            os.remove(out2)
        try:
            rcode = tool.main([ambient.vflag(), 'build', out2, '--lua', p1, '--lua-minify'])
            got2 = rc.read_p8(open(out2, 'rb').read())['code']
        except BaseException as e:
            ctx.violation('p8tool build --lua-minify failed: %r' % (e,), case)
            return
        ctx.monitor('cli_build_minify_runs')
        problem, pairs, info = minify.align(want, got2, p.scopes)
        if rcode or problem is not None:
            ctx.violation('build --lua-minify: %s' % (problem[1] if problem else 'returned %r' % rcode), case,
                          key=classify(want, problem) if problem else None)


def run_strings(spec, ctx):
    """The string-literal enumerator (every escape form x following characters, every raw byte) through the minifier:
    luamin re-spells strings from their decoded value."""
    from . import c07
    i, k = spec['slice']
    p = progen.Program()
    for idx, src in enumerate(c07.gen_strings()):
        if idx % k != i or not src.startswith(b's='):
            continue
        if reflex.try_lex(src)[1] is not None:
            continue
        case = {'src': src, 'config': 'default', 'keep_names': [], 'scopes': []}
        ctx.case((src, 'strings'), nontrivial=False)
        ctx.feature('string_enumerator_cases')
        try:
            L, out = minify.minify_lib(src, 'default')
        except Exception as e:
            ctx.violation('luamin raised %r on %r' % (e, src[:60]), case)
            continue
        problem, pairs, info = minify.align(src, out, None)
        ctx.monitor('string_literals_aligned')
        if problem is not None:
            ctx.violation('library path: ' + problem[1], case, key=classify(src, problem))
    ctx.sample({'string_source': b's="\\\\014x"'})


def run_numbers(spec, ctx):
    """The numeral enumerator (mantissa x exponent x zero padding; hex; binary) through the minifier in every configuration: a
    re-spelled numeral has to keep its exact value and stay one token."""
    nums = progen.gen_numerals()
    for config in ('default', 'keep_all'):
        for k in range(0, len(nums), 6):
            grp = nums[k:k + 6]
            src = b''.join(b'n%d=%s\n' % (j, n) for j, n in enumerate(grp)) + b'm={' + b','.join(grp) + b'}\nq=' + b'+'.join(grp)
            case = {'src': src, 'config': config, 'keep_names': [], 'scopes': []}
            ctx.case((src, 'numbers', config), nontrivial=True)
            ctx.feature('numeral_enumerator_cases', len(grp))
            try:
                L, out = minify.minify_lib(src, config)
            except Exception as e:
                ctx.violation('luamin raised %r on %r' % (e, src[:60]), case)
                continue
            problem, pairs, info = minify.align(src, out, None)
            ctx.monitor('numerals_aligned', 3 * len(grp))
            if problem is not None:
                ctx.violation('library path: ' + problem[1], case, key=classify(src, problem))
    ctx.sample({'numeral_source': b'n0=2.50e-20'})


def run_shard(spec, ctx):
    rng = ctx.rng
    if spec.get('kind') == 'strings':
        run_strings(spec, ctx)
        return
    if spec.get('kind') == 'numbers':
        run_numbers(spec, ctx)
        return
    if spec.get('kind') == 'big':
        # cart-sized programs (hundreds of statements, several hundred line-scoped shorthands, tens of thousands of characters)
        workdir = tempfile.mkdtemp(prefix='vf-c01-')
        try:
            bias = {'shortif': ['shortif'] * 30 + ['qprint', 'compound'] * 5, 'mixed': ['shortif'] * 8 + ['if', 'do', 'forin', 'function', 'qprint'] * 3}[spec['bias']]
            done = 0
            for i in range(spec['count'] * 4):
                if done >= spec['count']:
                    break
                p = progen.gen_program(rng, {'depth': 2, 'max_stmts': 2, 'top_stmts': (400, 250)[i % 2], 'stat_bias': bias, 'goto': False,
                                             'exotic_numbers': True, 'exotic_strings': True, 'multiline_strings': False,
                                             'table_methods': 0.3, 'names_extra': [b'stat_%d' % k for k in range(500)]})
                src = layout.render(p, rng, style=('lines', 'normal', 'tight')[i % 3])
                if src is None:
                    ctx.monitor('generator_rejects')
                    continue
                done += 1
                ctx.feature('big_programs')
                ctx.monitor('big_program_chars', len(src))
                names = sorted({p.toks[k][1] for k in p.names})
                ctx.monitor('big_program_distinct_identifiers', len(names))
                check_program(ctx, src, p, CONFIGS[i % 3], names[::3], workdir, i % 2 == 0)
        finally:
            shutil.rmtree(workdir, ignore_errors=True)
        ctx.extra['pairs'] = sorted(ctx.extra.get('pairs', []))
        return
    workdir = tempfile.mkdtemp(prefix='vf-c01-')
    try:
        for i in range(spec['count']):
            depth = rng.choice((1, 2, 2, 3)) if not spec.get('deep') else rng.choice((3, 4, 5))
            p = progen.gen_program(rng, {'depth': depth, 'max_stmts': 4 if depth <= 3 else 2, 'exotic_numbers': True,
                                         'exotic_strings': True, 'paren_op_prefix': rng.random() < 0.2,
                                         'nested_short_if': rng.random() < 0.1,
                                         'table_methods': 0.6 if i % 4 == 0 else 0.0})
            style = 'spaced' if (spec.get('spaced_bias') and rng.random() < 0.6) else None
            src = layout.render(p, rng, style=style)
            if src is None:
                ctx.monitor('generator_rejects')
                continue
            if style == 'spaced':
                ctx.feature('layout_spaced')
            config = rng.choice(CONFIGS)
            names = sorted({p.toks[k][1] for k in p.names})
            keep = [n for n in names if rng.random() < 0.3] + [b'a', b'b', b'ba', b'print', b'\x80x']
            check_program(ctx, src, p, config, keep, workdir, spec.get('cli') and i % 5 == 0)
            if i == 0:
                ctx.sample({'source': src[:200], 'config': config})
    finally:
        shutil.rmtree(workdir, ignore_errors=True)
    ctx.extra['pairs'] = sorted(ctx.extra.get('pairs', []))


def replay(case, ctx):
    workdir = tempfile.mkdtemp(prefix='vf-c01-')
    try:
        p = progen.Program()
        p.scopes = [tuple(s) for s in case.get('scopes', [])]
        p.feats = set()
        check_program(ctx, case['src'], p, case['config'], case.get('keep_names') or [], workdir, True)
    finally:
        shutil.rmtree(workdir, ignore_errors=True)


def gates(m, tier):
    f, mon = m['features'], m['monitors']
    missed = []
    table = load_table()
    seen = set()
    for ex in m['extra']:
        seen.update(tuple(x) for x in ex.get('pairs', []))
    cov = len(table & seen) / float(len(table))
    m['features']['adjacency_table_pairs'] = len(table)
    m['features']['adjacency_pairs_observed'] = len(table & seen)
    if cov < 0.95:
        missed.append('adjacency table coverage %.3f < 0.95' % cov)
    for k in STAT_FEATS:
        if f.get(k, 0) < 20:
            missed.append('statement kind %s seen %d times' % (k, f.get(k, 0)))
    for k in ('shortif', 'qprint'):
        if f.get(k, 0) < 50:
            missed.append('%s seen %d times (<50)' % (k, f.get(k, 0)))
    for c in CONFIGS:
        if f.get('config:' + c, 0) < 100:
            missed.append('configuration %s used %d times' % (c, f.get('config:' + c, 0)))
    if f.get('layout_spaced', 0) < 100:
        missed.append('pair-directed layout used %d times' % f.get('layout_spaced', 0))
    if mon.get('string_literals_aligned', 0) < 5000:
        missed.append('string enumerator through luamin: %d' % mon.get('string_literals_aligned', 0))
    if f.get('big_programs', 0) < 3:
        missed.append('cart-sized programs: %d' % f.get('big_programs', 0))
    if mon.get('numerals_aligned', 0) < 2000:
        missed.append('numeral enumerator through luamin: %d' % mon.get('numerals_aligned', 0))
    if f.get('table-method-with-block-then-line-scope', 0) < 30 or f.get('num:random', 0) < 100:
        missed.append('table methods with a block then a line-scoped statement: %d programs; random numerals: %d programs'
                      % (f.get('table-method-with-block-then-line-scope', 0), f.get('num:random', 0)))
    if mon.get('cli_stats_compared', 0) < 20:
        missed.append('stats command compared: %d' % mon.get('cli_stats_compared', 0))
    if mon.get('cli_luamin_runs', 0) < 20 or mon.get('cli_build_minify_runs', 0) < 5:
        missed.append('CLI paths: luamin %d, build %d' % (mon.get('cli_luamin_runs', 0), mon.get('cli_build_minify_runs', 0)))
    # keep evidence small: drop the raw pair lists
    for ex in m['extra']:
        ex.pop('pairs', None)
    return missed
