"""C14 — build embeds each require()d package once and leaves all code intact.

Monitor: the harness writes a main .lua file and a graph of package files (pieces of generated dialect code, game-loop
function definitions at the start/middle/end, require() calls in every syntactic position, optional final return), runs
`p8tool build OUT.p8 --lua main.lua [--lua-path ...]` through tool.main and lexes OUT's code with the reference lexer:
 * the code must end with the main program's tokens, unchanged, preceded by a `function require(` definition;
 * the package table must define exactly the expected names, each once: headers `package._c["name"]=function()` are located,
   names are the decoded strings, and each body (up to the `end` before the next header / the loader) must equal the package
   source token-for-token minus only its top-level _init/_update/_update60/_draw definitions unless use_game_loop was asked;
 * picotool's own parser must consume the built code to its end;
 * a require() whose file is missing or whose arguments are malformed must fail the build.
"""
import os
from .. import ambient
import shutil
import tempfile

from .. import progen, layout, reflex
from .. import refcodec as rc

LEVEL = 'exploration'
RULE = ('package graphs with 1-6 packages: chains, shared dependencies (diamonds), cycles, packages in sub-directories, load paths {default, '
        '--lua-path with relative / absolute entries, PICO8_LUA_PATH}; package bodies = generated dialect pieces + game-loop functions first / middle / '
        'last + require() in statement, assignment, local, table-field, return, call-argument, method-chain and nested-function position, with and '
        'without final newline or trailing comment; use_game_loop true/false; error classes (missing file, 0 or 3 arguments, non-string name, bad '
        'option table). Non-trivial: at least one package embedded; distinct by hash of all file contents')
ASSUMPTIONS = [
    'strings are compared by decoded value (C06 owns spelling); package order inside the table is not prescribed',
    'any exception or non-zero return counts as "fails the build with an error"',
    'the same require string is never made to resolve to two different files, and one require name is always used with one use_game_loop choice '
    '(one file may be required under two names with different choices)',
    '`require "x"` without parentheses is not required to be supported and is not generated',
]
EXHAUSTIVE = {'quick': False, 'thorough': False}
PYOPT_KINDS = ('graphs',)
KNOWN_KEYS = {'gameloop-strip-joins-lines', 'package-name-backslash', 'gameloop-strip-reserialise', 'package-no-final-newline', 'require-nested-in-call', 'gameloop-dotted-name-stripped'}
GAME_LOOP = (b'_init', b'_update', b'_update60', b'_draw')
HEADER = [b'package', b'.', b'_c', b'[', None, b']', b'=', b'function', b'(', b')']


def plan(tier, seed):
    n = 12 if tier == 'quick' else 48
    specs = [{'kind': 'graphs', 'count': 18 if tier == 'quick' else 110} for _ in range(n)]
    specs.append({'kind': 'errors', 'count': 40 if tier == 'quick' else 300})
    return specs


SEP_TURN = [0]


def code_piece(rng):
    """A piece of generated top-level code that does not end in return/break."""
    for _ in range(20):
        p = progen.gen_program(rng, {'depth': rng.choice((1, 2)), 'max_stmts': 3, 'vararg_main': False, 'goto': False,
                                     'paren_op_prefix': rng.random() < 0.3})
        if p.tree[1] and p.tree[1][-1][0] in ('StatReturn', 'StatBreak'):
            continue
        if any(raw == b'require' for k, raw in p.toks):
            continue
        if any(st[0] == 'StatFunction' and st[1][0][0] in GAME_LOOP for st in p.tree[1]):
            continue   # a top-level game-loop definition of its own would be stripped, rightly
        src = layout.render(p, rng, style=rng.choice(('normal', 'lines', 'tight', 'wild')), crlf=False, final_newline=True)
        if src is not None:
            return src
    return b'x=1\n'


def gameloop_piece(rng):
    name = rng.choice(GAME_LOOP)
    form = rng.randrange(4)
    if form == 0:
        return b'function ' + name + b'()\n  cls()\n  t=t+1\nend\n', name
    if form == 1:
        return b'function ' + name + b'() end\n', name
    if form == 2:
        return b'-- test loop\nfunction ' + name + b'()\n if (btn(0)) x-=1\n for i=1,3 do print(i) end\nend\n', name
    return b'function ' + name + b'(a,b) local f=function() return 1 end return f end\n', name


def gameloop_with_neighbours(rng):
    """-> [(text, is_game_loop_function)]: a game-loop function directly preceded by a comment and/or followed by more code on the
    line of its closing `end`.  What is not the function definition itself belongs to the package whatever the option."""
    name = rng.choice(GAME_LOOP)
    before = rng.choice((b'-- harness\n', b'// loop below\n', b'--[[ block ]]\n', b'--[[ two\nlines ]]\n', b'-- a\n-- b\n', b'k_%d=1 ' % rng.randrange(9), b''))
    fn = rng.choice((b'function ' + name + b'() end', b'function ' + name + b'()\n cls()\n if (btn(1)) x+=1\nend',
                     b'function ' + name + b'() local q=function() end end'))
    after = rng.choice((b' m.ready=true\n', b' vec_%d={}\n' % rng.randrange(9), b' print("after") -- note\n', b' local z9=2\n', b'\n',
                        # a statement separator after the definition is a token of the package (what follows it on the next line would
                        # otherwise continue the statement before the function)
                        b';\n', b' ;\n(fa or fb)()\n', b';y9=2\n', b'; -- done\n'))
    out = []
    if before:
        out.append((before, False))
    out.append((fn, True))
    out.append((after, False))
    return out, name


def lua_string(rng, name):
    """A Lua string literal denoting exactly the bytes `name`."""
    q = rng.choice((b'"', b"'"))
    body = name.replace(b'\\', b'\\\\').replace(q, b'\\' + q)
    return q + body + q


GAPS = (b'', b'', b'', b' ', b'\t', b'  ', b' --[[lib]] ')


def require_piece(rng, name, opt, gap=b''):
    """gap: what stands between the name `require` and its opening parenthesis (one style per file)."""
    arg = lua_string(rng, name)
    if opt:
        arg += rng.choice((b',{use_game_loop=true}', b', { use_game_loop = true }'))
    call = b'require' + gap + b'(' + (b' ' if gap and rng.random() < 0.5 else b'') + arg + b')'
    form = rng.choice(('stmt', 'assign', 'local', 'field', 'callarg', 'chain', 'nestedfn', 'index', 'in_if', 'in_else', 'in_shortif',
                       'in_loop', 'in_cond', 'assign_target', 'index_target', 'compound_target', 'multi_target', 'unop', 'binop', 'table_key',
                       'method_arg', 'for_range'))
    # (the call as part of what is assigned TO, as an operand, as a table key, as a loop bound)
    if form == 'assign_target':
        return call + b'.debug=true\n', form
    if form == 'index_target':
        return call + b'[1]=%d\n' % rng.randrange(9), form
    if form == 'compound_target':
        return call + b'.n+=1\n', form
    if form == 'multi_target':
        return b'a_%d,' % rng.randrange(9) + call + b'.b=1,2\n', form
    if form == 'unop':
        return rng.choice((b'z=#', b'z=not ', b'z=-')) + call + b'\n', form
    if form == 'binop':
        return rng.choice((b'z=1+' + call + b'\n', b'z=' + call + b'..""\n', b'z=dbg and ' + call + b' or nil\n')), form
    if form == 'table_key':
        return b'reg={[' + call + b']=1}\n', form
    if form == 'method_arg':
        return b'obj:add(1,' + call + b')\n', form
    if form == 'for_range':
        return b'for i=1,' + call + b'.n do k=i end\n', form
    if form == 'stmt':
        return call + b'\n', form
    if form == 'assign':
        return b'm_%d=' % rng.randrange(9) + call + b'\n', form
    if form == 'local':
        return b'local l_%d=' % rng.randrange(9) + call + b'\n', form
    if form == 'field':
        return b't_%d={a=' % rng.randrange(9) + call + b',2}\n', form
    if form == 'callarg':
        return b'print(' + call + b')\n', form
    if form == 'chain':
        return rng.choice((call + b'.init()\n', b'v=' + call + b':get(1)\n')), form
    if form == 'index':
        return b'w=' + call + b'[1]\n', form
    if form == 'in_if':
        return b'if dbg then\n local z=' + call + b'\nend\n', form
    if form == 'in_else':
        return b'if dbg then\n z=1\nelseif dbg2 then\n z=2\nelse\n z=' + call + b'\nend\n', form
    if form == 'in_shortif':
        return b'if (dbg) z=' + call + b'\n', form
    if form == 'in_loop':
        return rng.choice((b'for i=1,2 do\n ' + call + b'\nend\n', b'while w do\n k=' + call + b'\n break\nend\n',
                           b'repeat\n k=' + call + b'\nuntil true\n', b'do\n local k=' + call + b'\nend\n')), form
    if form == 'in_cond':
        return b'if ' + call + b' then\n z=3\nend\n', form
    return b'function setup_%d()\n local q=' % rng.randrange(9) + call + b'\nend\n', form


class Pkg:
    pass


def build_graph(rng, root):
    """-> dict with main path, expected packages {name: [expected token list]}, features, files"""
    feats = set()
    npk = rng.choice((1, 2, 3, 3, 4, 6))
    subdir = rng.random() < 0.4
    lua_path_mode = rng.choice(('default', 'default', 'arg_rel', 'arg_abs', 'env', 'arg_qdir', 'arg_and_env'))
    pkgs = []
    for i in range(npk):
        k = Pkg()
        k.file_dir = 'lib' if (subdir and i % 2 == 1) else ''
        k.base = 'pkg%d' % i
        if rng.random() < 0.15:
            # names that need care when they are written into the package table as a string literal
            k.base = rng.choice(('pk"q%d', "pk'q%d", 'pk\\b%d', 'pk -%d', 'pk\\n%d', 'pk\u00ea%d', 'for\u00eat_%d', 'pk\u65e5\u672c%d')) % i
            feats.add('package_name_special_chars')
            if any(ord(ch) > 127 for ch in k.base):
                feats.add('package_name_non_ascii')
        k.opt = rng.random() < 0.25
        k.deps = []
        pkgs.append(k)
    # edges: DAG i -> j (j > i), plus sharing and an optional cycle
    for i, k in enumerate(pkgs):
        for j in range(i + 1, npk):
            if rng.random() < 0.45:
                k.deps.append(j)
    if npk >= 2 and rng.random() < 0.3:
        pkgs[-1].deps.append(0)
        feats.add('cycle')
    roots = [0] + [j for j in range(1, npk) if rng.random() < 0.3]
    indeg = {}
    for k in pkgs:
        for j in k.deps:
            indeg[j] = indeg.get(j, 0) + 1
    for j in roots:
        indeg[j] = indeg.get(j, 0) + 1
    if any(v >= 2 for v in indeg.values()):
        feats.add('shared_dependency')
    # the require string by which package j is named from a file in directory d
    libdir = os.path.join(root, 'libs')

    def req_name(j, from_dir):
        t = pkgs[j]
        if lua_path_mode in ('arg_rel', 'arg_abs', 'env', 'arg_qdir', 'arg_and_env') and t.file_dir == 'lib':
            return t.base.encode()      # found through the load path
        if t.file_dir == from_dir:
            return t.base.encode()
        if from_dir == '' and t.file_dir == 'lib':
            # (a doubled separator is another spelling of the same file, and a name of its own in the package table)
            if not hasattr(t, 'sep'):
                SEP_TURN[0] += 1
                t.sep = b'//' if SEP_TURN[0] % 3 == 0 else b'/'      # (by turns, not by chance: a gate counts these)
                if t.sep == b'//':
                    feats.add('required_name_with_doubled_separator')
            return b'lib' + t.sep + t.base.encode()
        return None   # lib -> main dir is not expressible without ../

    files = {}
    expected = {}
    reach = set()

    def emit(j):
        if j in reach:
            return
        reach.add(j)
        k = pkgs[j]
        pieces = []   # (text, keep)
        n_code = rng.randint(1, 3)
        slots = []
        for c in range(n_code):
            slots.append((code_piece(rng), True))
        deps = []
        for d in k.deps:
            nm = req_name(d, k.file_dir)
            if nm is None:
                continue
            deps.append((d, nm))
        if not deps and rng.random() < 0.2:
            # a package with nothing in it, or nothing left once its game loop is stripped: still a package of that name
            kind_e = rng.choice(('empty_file', 'comments_only', 'game_loop_only'))
            slots = {'empty_file': [], 'comments_only': [(b'-- nothing here yet\n--[[ todo ]]\n', True)],
                     'game_loop_only': [(b'function _init()\n cls()\nend\n', 'gameloop'), (b'function _draw() end\n', 'gameloop')]}[kind_e]
            feats.add('package_without_remaining_code:' + kind_e)
        gap = rng.choice(GAPS)
        if gap and deps:
            feats.add('blank_or_comment_between_require_and_parenthesis')
        for d, nm in deps:
            txt, form = require_piece(rng, nm, pkgs[d].opt, gap)
            feats.add('require_form:' + form)
            slots.insert(rng.randint(0, len(slots)), (txt, True))
        ngl = rng.choice((0, 1, 1, 2))
        for g in range(ngl):
            where = rng.choice(('first', 'middle', 'last'))
            feats.add('gameloop_' + where)
            pos = 0 if where == 'first' else len(slots) if where == 'last' else rng.randint(0, len(slots))
            if rng.random() < 0.4:
                parts, nm = gameloop_with_neighbours(rng)
                slots.insert(pos, ([(t, 'gameloop' if is_fn else True) for t, is_fn in parts], 'group'))
                feats.add('gameloop_with_comment_before_or_code_after')
            else:
                txt, nm = gameloop_piece(rng)
                slots.insert(pos, (txt, 'gameloop'))     # kept only with use_game_loop
            if not k.opt:
                feats.add('gameloop_stripped')
            else:
                feats.add('gameloop_kept')
        if rng.random() < 0.12:
            nm = rng.choice(GAME_LOOP)
            slots.insert(rng.randint(0, len(slots)), (b'function ' + nm + b'.helper() return 2 end\n', True))
            feats.add('dotted_gameloop_name')
        if rng.random() < 0.15:
            # helpers whose names merely begin with (or contain) a game-loop name are ordinary functions of the package
            nm = rng.choice((b'_draw_hud', b'_update_all', b'_init2', b'_update60fps', b'_updater', b'_drawn', b'my_init', b'x_update', b'_update6', b'_UPDATE'))
            slots.insert(rng.randint(0, len(slots)), (b'function ' + nm + b'() return 3 end\n', True))
            feats.add('function_name_beginning_with_a_gameloop_name')
        if rng.random() < 0.2:
            # a game-loop name as the LAST component of a dotted / method name is an ordinary function of the package
            nm = rng.choice(GAME_LOOP)
            slots.insert(rng.randint(0, len(slots)), (rng.choice((b'function scenes.title.' + nm + b'() return 4 end\n',
                                                                  b'function obj:' + nm + b'() return 5 end\n',
                                                                  b'function st.' + nm + b'(a)\n if (a) return 6\nend\n')), True))
            feats.add('gameloop_name_as_last_component')
        if rng.random() < 0.15:
            nm = rng.choice(GAME_LOOP)
            slots.insert(rng.randint(0, len(slots)), (b'do\n function ' + nm + b'() return 3 end\nend\n', True))
            feats.add('nested_gameloop_function')
        if rng.random() < 0.4:
            slots.append((rng.choice((b'return {v=%d}\n' % j, b'return pkg_%d\n' % j, b'return\n')), True))
            feats.add('final_return')
        flat = []
        for t, keep in slots:
            flat.extend(t if keep == 'group' else [(t, keep)])
        slots = flat
        text = b''.join(t for t, keep in slots)
        fin = rng.random()
        if fin < 0.2:
            text = text.rstrip(b'\n')
            feats.add('package_no_final_newline')
        elif fin < 0.3:
            text = text + b'-- trailing comment'
            feats.add('package_trailing_comment')
        exp = []
        exp_other = []      # the same file embedded with the opposite use_game_loop choice (under another require name)
        for t, keep in slots:
            tk = reflex.sig(reflex.lex(t))
            if keep is True or k.opt:
                exp.extend(tk)
            if keep is True or not k.opt:
                exp_other.extend(tk)
        rel = os.path.join(k.file_dir if lua_path_mode == 'default' or k.file_dir == '' else 'libs', k.base + '.lua')
        if lua_path_mode == 'arg_qdir' and k.file_dir == 'lib':
            # load path patterns with `?` in a directory component: libs/?/?.lua and libs/?/init.lua
            rel = os.path.join('libs', k.base, rng.choice((k.base + '.lua', 'init.lua')))
            feats.add('found_via_pattern_with_placeholder_in_directory')
        if lua_path_mode != 'default' and k.file_dir == 'lib':
            feats.add('found_via_load_path')
        elif k.file_dir == 'lib':
            feats.add('package_in_subdir')
        files[rel] = text
        if k.base.startswith('pkg') and k.file_dir == '' and rng.random() < 0.3:
            # two files match the name: the entry that comes first in the load path decides
            decoy = b'decoy_%s=true\nfunction _draw() end\n' % k.base.encode()
            if lua_path_mode == 'default':
                # ?;?.lua - a file called exactly like the package comes before the one with the extension
                files[k.base] = text
                files[rel] = decoy
                k.decoy = True
                feats.add('two_files_match_first_entry_wins')
            elif lua_path_mode == 'arg_rel':
                files[os.path.join('libs', k.base + '.lua')] = decoy
                feats.add('two_files_match_first_entry_wins')
        if k.base.startswith('pkg') and rng.random() < 0.35 and k.base not in files:
            # a sub-package directory that has the package's name sits next to the package file
            files[os.path.join(os.path.dirname(rel), k.base, 'part.lua')] = b'part=1\n'
            feats.add('directory_named_like_package')
        k.rel = rel
        k.exp = exp
        k.exp_other = exp_other
        for d, nm in deps:
            expected.setdefault(nm, pkgs[d])
            emit(d)

    main_gap = rng.choice(GAPS)
    main_slots = [(code_piece(rng), True)]
    for j in roots:
        nm = req_name(j, '')
        expected.setdefault(nm, pkgs[j])
        txt, form = require_piece(rng, nm, pkgs[j].opt, main_gap)
        if main_gap:
            feats.add('blank_or_comment_between_require_and_parenthesis')
        feats.add('require_form:' + form)
        main_slots.insert(rng.randint(0, len(main_slots)), (txt, True))
        emit(j)
        if pkgs[j].opt and rng.random() < 0.4:
            # the same name once more, further down in the same file and without the option: the game loop was requested, the
            # package is defined once and keeps it
            first_at = next(i for i, sl in enumerate(main_slots) if sl[0] is txt)
            txt2, form2 = require_piece(rng, nm, False, main_gap)
            main_slots.insert(rng.randint(first_at + 1, len(main_slots)), (txt2, True))
            feats.add('same_name_again_without_the_option')
    if lua_path_mode == 'default' and rng.random() < 0.35:
        # one file under a second require name (the default load path ?;?.lua finds pkgN.lua as "pkgN" and as "pkgN.lua"), asked
        # for with the other use_game_loop choice: two names, two packages, each stripped or not as its own require says
        cands = [j for j in sorted(reach) if pkgs[j].file_dir == '' and pkgs[j].base.startswith('pkg') and not getattr(pkgs[j], 'decoy', False)]
        if cands:
            j = rng.choice(cands)
            alias = Pkg()
            alias.opt = not pkgs[j].opt
            alias.exp = pkgs[j].exp_other
            nm = (pkgs[j].base + '.lua').encode()
            expected[nm] = alias
            txt, form = require_piece(rng, nm, alias.opt, main_gap)
            main_slots.insert(rng.randint(0, len(main_slots)), (txt, True))
            feats.add('one_file_two_names_opposite_options')
    if rng.random() < 0.3:
        txt, nm = gameloop_piece(rng)
        main_slots.append((txt, True))    # the main program keeps its game loop
        feats.add('main_has_gameloop')
    if rng.random() < 0.15:
        # a library built as its own test cart: the main chunk ends in a return statement (tokens like any others)
        main_slots.append((rng.choice((b'return\n', b'return {v=1}\n', b'return x, y -- done\n', b'return;\n', b'return f(1)')), True))
        feats.add('main_ends_with_return')
    if rng.random() < 0.15:
        main_slots.insert(0, (rng.choice((b'--[[ main\n  program ]]\n', b'--[==[ header\n]==]\n', b'-- title\n-- by me\n')), True))
        feats.add('main_starts_with_comment')
    main_text = b''.join(t for t, _ in main_slots)
    if rng.random() < 0.2:
        main_text = main_text.rstrip(b'\n')
    files['main.lua'] = main_text
    for rel, data in files.items():
        path = os.path.join(root, rel)
        os.makedirs(os.path.dirname(path), exist_ok=True)
        with open(path, 'wb') as fh:
            fh.write(data)
    argv = [ambient.vflag(), 'build', os.path.join(root, 'out.p8'), '--lua', os.path.join(root, 'main.lua')]
    if rng.random() < 0.3:
        # other sections of the same build come from a cart in another directory, next to which files of the packages' names lie:
        # a require() is looked up from the file that contains it
        from .. import carts as _carts
        art = os.path.join(root, 'assets', 'art.p8')
        os.makedirs(os.path.dirname(art), exist_ok=True)
        with open(art, 'wb') as fh:
            fh.write(rc.write_p8(_carts.random_regions(rng, 'sparse')[0], b'art=1\n', version=8))
        for nm in list(expected):
            decoy = os.path.join(root, 'assets', nm.decode('latin-1') + '.lua')
            if b'/' not in nm and nm.isascii() and not os.path.exists(decoy):
                with open(decoy, 'wb') as fh:
                    fh.write(b'decoy_from_assets=1\n')
        argv += [rng.choice(('--gfx', '--sfx', '--music')), art]
        feats.add('other_section_from_a_cart_in_another_directory')
    env = {}
    if lua_path_mode == 'arg_rel':
        argv += ['--lua-path', '?;?.lua;libs/?.lua']
    elif lua_path_mode == 'arg_abs':
        argv += ['--lua-path', '?.lua;' + os.path.join(root, 'libs', '?.lua')]
    elif lua_path_mode == 'env':
        env['PICO8_LUA_PATH'] = '?;?.lua;' + os.path.join(root, 'libs', '?.lua')
    elif lua_path_mode == 'arg_and_env':
        # both given: the command line names the load path of this build (the variable points somewhere useless)
        argv += ['--lua-path', '?.lua;' + os.path.join(root, 'libs', '?.lua')]
        env['PICO8_LUA_PATH'] = os.path.join(root, 'nowhere', '?.lua') + ';never/?.lua'
    elif lua_path_mode == 'arg_qdir':
        # (relative patterns are taken relative to the requiring file, so packages that require each other need the absolute ones)
        argv += ['--lua-path', '?;?.lua;libs/?/?.lua;' + os.path.join(root, 'libs', '?', 'init.lua') + ';' + os.path.join(root, 'libs', '?', '?.lua')]
    feats.add('lua_path:' + lua_path_mode)
    feats.add('packages_%d' % min(len(expected), 4))
    if any(k.opt for k in expected.values()):
        feats.add('use_game_loop_true')
    if any(not k.opt for k in expected.values()):
        feats.add('use_game_loop_false')
    return {'argv': argv, 'env': env, 'files': files, 'expected': {n: k.exp for n, k in expected.items()},
            'main': reflex.sig(reflex.lex(main_text)), 'feats': feats,
            'strip': {n: (not k.opt) for n, k in expected.items()}}


def tok_eq(a, b):
    if a.kind != b.kind:
        return False
    if a.kind == 'string':
        return a.value == b.value
    if a.kind == 'number':
        return a.value == b.value
    return a.raw == b.raw


def seq_diff(got, want):
    n = min(len(got), len(want))
    for i in range(n):
        if not tok_eq(got[i], want[i]):
            return i
    return None if len(got) == len(want) else n


def find_headers(toks):
    out = []
    for i in range(len(toks) - len(HEADER) + 1):
        ok = True
        for k, h in enumerate(HEADER):
            t = toks[i + k]
            if h is None:
                if t.kind != 'string':
                    ok = False
                    break
            elif t.raw != h:
                ok = False
                break
        if ok:
            out.append(i)
    return out


def judge(ctx, g, root, case):
    from pico8 import tool
    from pico8.lua import lua, lexer
    out = os.path.join(root, 'out.p8')
    old_env = {k: os.environ.get(k) for k in ('PICO8_LUA_PATH',)}
    os.environ.pop('PICO8_LUA_PATH', None)
    os.environ.update(g['env'])
    try:
        try:
            rcode = tool.main(g['argv'])
            err = None
        except BaseException as e:
            rcode, err = 1, e
    finally:
        for k, v in old_env.items():
            if v is None:
                os.environ.pop(k, None)
            else:
                os.environ[k] = v
    ctx.monitor('builds_run')
    feats = g['feats']

    def classify(desc):
        if err is not None:
            import traceback
            names = [t.name for t in traceback.extract_tb(err.__traceback__)]
            if 'reparse' in names and 'gameloop_stripped' in feats:
                return 'gameloop-strip-reserialise'
            if ('package_no_final_newline' in feats or 'package_trailing_comment' in feats) and 'to_file' in names:
                return 'package-no-final-newline'
        return None

    if err is not None or rcode:
        ctx.violation('build failed on a valid package graph: %r' % (err or rcode,), case, key=classify('fail'))
        return
    try:
        code = rc.read_p8(open(out, 'rb').read())['code']
        toks = reflex.sig(reflex.lex(code))
    except Exception as e:
        ctx.violation('built cart / code not readable: %r' % (e,), case)
        return
    main = g['main']
    expected = g['expected']
    ctx.monitor('outputs_lexed')
    if not expected:
        d = seq_diff(toks, main)
        if d is not None:
            ctx.violation('no require() used, yet the built code differs from the main program at token %d' % d, case)
        return
    if len(toks) < len(main) or seq_diff(toks[len(toks) - len(main):], main) is not None:
        d = seq_diff(toks[max(0, len(toks) - len(main)):], main)
        ctx.violation('built code does not end with the main program unchanged (first difference at main token %s)' % d, case)
        return
    # the main program is one contiguous piece at the end: its comments and line breaks are where they were (token for token under the
    # reference lexer, a quoted string by the bytes it denotes), nothing of it stands in front of the loader
    all_main = reflex.lex(g['files']['main.lua'] if g['files']['main.lua'].endswith(b'\n') else g['files']['main.lua'] + b'\n')
    all_built = reflex.lex(code if code.endswith(b'\n') else code + b'\n')
    ctx.monitor('main_program_tails_compared')
    tail = all_built[len(all_built) - len(all_main):]
    for a, b in zip(all_main, tail) if len(all_built) >= len(all_main) else ():
        same = (a.kind == b.kind and (a.value == b.value if (a.kind == 'string' and not a.long) else a.raw == b.raw))
        if not same:
            ctx.violation('the built code does not end with the main program as it was written: %s %r of the main file stands as %s %r' % (
                a.kind, a.raw[:30], b.kind, b.raw[:30]), case)
            return
    prefix = toks[:len(toks) - len(main)]
    heads = find_headers(prefix)
    # loader: `function require (` after the last package
    loader = None
    for i in range(len(prefix) - 2):
        if prefix[i].raw == b'function' and prefix[i + 1].raw == b'require' and prefix[i + 2].raw == b'(':
            loader = i
    if loader is None:
        ctx.violation('no `function require(` definition precedes the main program', case)
        return
    names = [prefix[i + 4].value for i in heads]
    ctx.monitor('package_headers_seen', len(heads))
    want_names = sorted(expected)
    if sorted(names) != want_names:
        missing = [n for n in want_names if n not in names]
        dup = sorted({n for n in names if names.count(n) > 1})
        extra = [n for n in names if n not in expected]
        key = 'package-name-backslash' if (missing and all(b'\\' in n for n in missing)) else 'require-nested-in-call' if missing and not dup and not extra and (
            feats & {'require_form:callarg', 'require_form:chain', 'require_form:index'}) else None
        ctx.violation('package table defines %s; required names are %s (missing %s, duplicated %s, unexpected %s)' % (
            names, want_names, missing, dup, extra), case, key=key)
        return
    bounds = heads[1:] + [loader]
    for i, nxt in zip(heads, bounds):
        name = prefix[i + 4].value
        body = prefix[i + len(HEADER):nxt]
        if not body or body[-1].raw != b'end':
            ctx.violation('package %r is not closed by `end` before the next definition' % name, case)
            return
        body = body[:-1]
        want = expected[name]
        ctx.monitor('package_bodies_compared')
        d = seq_diff(body, want)
        if d is not None:
            got_t = body[d].raw[:30] if d < len(body) else None
            want_t = want[d].raw[:30] if d < len(want) else None
            key = None
            if 'dotted_gameloop_name' in feats and want_t == b'function' and d + 1 < len(want) and want[d + 1].raw in GAME_LOOP:
                key = 'gameloop-dotted-name-stripped'
            ctx.violation('package %r body differs from its source at token %d: built %r, source %r (built %d tokens, expected %d)' % (
                name, d, got_t, want_t, len(body), len(want)), case, key=key)
            return
    # picotool's own parser on the result
    try:
        L = lua.Lua.from_lines([code], version=8)
        rest = [t for t in L.tokens[L.root.end_pos:] if not isinstance(t, (lexer.TokSpace, lexer.TokNewline, lexer.TokComment))]
    except Exception as e:
        ctx.violation('built code does not parse: %r' % (e,), case)
        return
    ctx.monitor('built_code_parsed')
    if rest:
        ctx.violation('built code is not parsed to its end (%d tokens left)' % len(rest), case)


ERROR_KINDS = ('missing', 'noargs', 'threeargs', 'nonstring', 'badoption', 'badoption2', 'missing_nested', 'offpath_next_to_main',
               'offpath_next_to_package', 'offpath_env')


def run_error(ctx, rng, root, index=0):
    from pico8 import tool
    kind = ERROR_KINDS[index % len(ERROR_KINDS)]
    files = {'ok.lua': b'ok=1\n'}
    if kind == 'missing':
        main = b'x=1\nrequire("nothere")\n'
    elif kind == 'noargs':
        main = b'require()\n'
    elif kind == 'threeargs':
        main = b'require("ok",{use_game_loop=true},3)\n'
    elif kind == 'nonstring':
        main = rng.choice((b'n="ok"\nrequire(n)\n', b'require(1)\n', b'require({})\n'))
    elif kind == 'badoption':
        main = rng.choice((b'require("ok",{foo=true})\n', b'require("ok",{use_game_loop=1})\n', b'require("ok",{use_game_loop=true,x=1})\n'))
    elif kind == 'badoption2':
        main = rng.choice((b'require("ok",5)\n', b'require("ok","x")\n'))
    elif kind.startswith('offpath'):
        # a custom load path is the whole load path: a file that merely sits next to the requiring file, where no pattern of the
        # path in force looks, is a file that cannot be found
        extra_argv, extra_env = [], {}
        files['libs/other.lua'] = b'other=1\n'
        if kind == 'offpath_next_to_main':
            files['helper.lua'] = b'helper=1\n'
            main = rng.choice((b'require("other")\nrequire("helper")\n', b'require("helper")\n'))
            extra_argv = ['--lua-path', rng.choice(('libs/?.lua', os.path.join(root, 'libs', '?.lua'), 'libs/?.lua;libs/?/init.lua'))]
        elif kind == 'offpath_next_to_package':
            files['libs/other.lua'] = b'local s=require("sib")\n'
            files['libs/sib.lua'] = b'sib=1\n'
            files['sub/x.lua'] = b'x=1\n'
            main = b'require("other")\n'
            # (relative patterns are applied to the directory of the requiring file: libs/libs/sib.lua does not exist)
            extra_argv = ['--lua-path', 'libs/?.lua;' + os.path.join(root, 'sub', '?.lua')]
        else:
            files['helper'] = b'helper=1\n'
            main = b'require("helper")\n'
            extra_env = {'PICO8_LUA_PATH': os.path.join(root, 'libs', '?.lua')}
    else:
        main = b'require("ok")\n'
        files['ok.lua'] = b'local z=require("deeper/none")\n'
    files['main.lua'] = carts_prefix(rng) + main
    for rel, data in files.items():
        os.makedirs(os.path.dirname(os.path.join(root, rel)), exist_ok=True)
        with open(os.path.join(root, rel), 'wb') as fh:
            fh.write(data)
    out = os.path.join(root, 'eout.p8')
    if os.path.exists(out):
        os.remove(out)
    case = {'error_kind': kind, 'files': files}
    ctx.case((kind, files['main.lua']), nontrivial=True)
    ctx.feature('error:' + kind)
    saved_env = {k: os.environ.get(k) for k in ('PICO8_LUA_PATH',)}
    if kind.startswith('offpath'):
        os.environ.update(extra_env)
        case['argv'] = [a.replace(root, '$ROOT') for a in extra_argv]
        case['env'] = {k: v.replace(root, '$ROOT') for k, v in extra_env.items()}
    try:
        rcode = tool.main([ambient.vflag(), 'build', out, '--lua', os.path.join(root, 'main.lua')] +
                          (extra_argv if kind.startswith('offpath') else []))
        err = None
    except BaseException as e:
        rcode, err = 1, e
    finally:
        for k, v in saved_env.items():
            if v is None:
                os.environ.pop(k, None)
            else:
                os.environ[k] = v
    ctx.monitor('error_builds')
    if err is None and not rcode:
        ctx.violation('build succeeded although require() is unusable (%s): %r' % (kind, main), case)


def carts_prefix(rng):
    return rng.choice((b'', b'y=2\n', b'-- main\nfunction _init() end\n'))


def run_shard(spec, ctx):
    rng = ctx.rng
    for i in range(spec['count']):
        root = tempfile.mkdtemp(prefix='vf-c14-')
        try:
            if spec['kind'] == 'errors':
                run_error(ctx, rng, root, i)
                continue
            g = build_graph(rng, root)
            case = {'files': g['files'], 'argv': [a.replace(root, '$ROOT') for a in g['argv']],
                    'env': {k: v.replace(root, '$ROOT') for k, v in g['env'].items()},
                    'expected_names': sorted(g['expected']), 'strip': {k.decode('latin-1'): v for k, v in g['strip'].items()},
                    'feats': sorted(g['feats'])}
            ctx.case(tuple(sorted(g['files'].items())), nontrivial=bool(g['expected']))
            for f in g['feats']:
                ctx.feature(f)
            judge(ctx, g, root, case)
            if i == 0:
                ctx.sample({'files': {k: v[:120] for k, v in g['files'].items()}, 'argv': case['argv']})
        finally:
            shutil.rmtree(root, ignore_errors=True)


def replay(case, ctx):
    """Rebuild the tree and re-run the build; the full body oracle needs the generator's piece list, so replay
    checks what the files alone determine: build succeeds, names defined once, code parses to its end."""
    from pico8 import tool
    from pico8.lua import lua, lexer
    root = tempfile.mkdtemp(prefix='vf-c14-')
    try:
        for rel, data in case['files'].items():
            path = os.path.join(root, rel)
            os.makedirs(os.path.dirname(path), exist_ok=True)
            with open(path, 'wb') as fh:
                fh.write(data)
        ctx.case(repr(sorted(case['files'])))
        if 'error_kind' in case:
            for k, v in case.get('env', {}).items():
                os.environ[k] = v.replace('$ROOT', root)
            try:
                rcode = tool.main([ambient.vflag(), 'build', os.path.join(root, 'eout.p8'), '--lua', os.path.join(root, 'main.lua')] +
                                  [a.replace('$ROOT', root) for a in case.get('argv', [])])
            except BaseException:
                rcode = 1
            finally:
                for k in case.get('env', {}):
                    os.environ.pop(k, None)
            if not rcode:
                ctx.violation('build succeeded although require() is unusable (%s)' % case['error_kind'], case)
            return
        argv = [a.replace('$ROOT', root) for a in case['argv']]
        for k, v in case.get('env', {}).items():
            os.environ[k] = v.replace('$ROOT', root)
        try:
            try:
                rcode = tool.main(argv)
            except BaseException as e:
                ctx.violation('build failed on a valid package graph: %r' % (e,), case)
                return
        finally:
            for k in case.get('env', {}):
                os.environ.pop(k, None)
        code = rc.read_p8(open(os.path.join(root, 'out.p8'), 'rb').read())['code']
        toks = reflex.sig(reflex.lex(code))
        names = sorted(toks[i + 4].value for i in find_headers(toks))
        want = sorted(n.encode('latin-1') if isinstance(n, str) else n for n in case['expected_names'])
        if names != want:
            ctx.violation('package table defines %s; required names are %s' % (names, want), case)
            return
        L = lua.Lua.from_lines([code], version=8)
        rest = [t for t in L.tokens[L.root.end_pos:] if not isinstance(t, (lexer.TokSpace, lexer.TokNewline, lexer.TokComment))]
        if rest:
            ctx.violation('built code is not parsed to its end', case)
    finally:
        shutil.rmtree(root, ignore_errors=True)


def gates(m, tier):
    f, mon = m['features'], m['monitors']
    missed = []
    for k in ('cycle', 'shared_dependency', 'gameloop_first', 'gameloop_middle', 'gameloop_last', 'gameloop_stripped', 'gameloop_kept',
              'use_game_loop_true', 'use_game_loop_false', 'package_no_final_newline', 'final_return', 'package_in_subdir',
              'found_via_load_path', 'package_name_special_chars', 'lua_path:default', 'lua_path:arg_rel', 'lua_path:arg_abs', 'lua_path:env', 'lua_path:arg_and_env', 'nested_gameloop_function',
              'require_form:stmt', 'require_form:assign', 'require_form:local', 'require_form:field', 'require_form:callarg',
              'require_form:chain', 'require_form:nestedfn', 'require_form:in_if', 'require_form:in_else', 'require_form:in_shortif',
              'require_form:in_loop', 'require_form:in_cond', 'require_form:assign_target', 'require_form:index_target', 'require_form:compound_target', 'require_form:multi_target', 'require_form:unop', 'require_form:binop', 'require_form:table_key', 'require_form:method_arg', 'require_form:for_range', 'error:missing', 'error:noargs', 'error:threeargs', 'error:nonstring',
              'error:badoption', 'error:offpath_next_to_main', 'error:offpath_next_to_package', 'error:offpath_env', 'main_ends_with_return', 'blank_or_comment_between_require_and_parenthesis', 'required_name_with_doubled_separator', 'function_name_beginning_with_a_gameloop_name', 'other_section_from_a_cart_in_another_directory', 'gameloop_with_comment_before_or_code_after', 'gameloop_name_as_last_component', 'dotted_gameloop_name', 'package_name_non_ascii', 'directory_named_like_package', 'two_files_match_first_entry_wins', 'found_via_pattern_with_placeholder_in_directory',
              'package_without_remaining_code:empty_file', 'package_without_remaining_code:comments_only', 'package_without_remaining_code:game_loop_only', 'one_file_two_names_opposite_options', 'same_name_again_without_the_option', 'main_starts_with_comment'):
        if f.get(k, 0) < 2:
            missed.append('%s seen %d times' % (k, f.get(k, 0)))
    if mon.get('package_bodies_compared', 0) < 100:
        missed.append('package bodies compared: %d' % mon.get('package_bodies_compared', 0))
    return missed
