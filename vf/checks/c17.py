"""C17 — section accessors read back what was set and touch nothing else.

History monitor: random sequences of public accessor calls (gfx, map, gff, sfx, music) are applied to a
real Game and, in lock-step, to vf.memmodel.Shadow (a plain model of the documented semantics, never
importing pico8).  After EVERY call the five regions are compared byte-for-byte with the shadow and each
getter's return value with the model's prediction.  Documented clipping must neither wrap, nor write
elsewhere, nor raise.
"""
from .. import carts
from ..memmodel import Shadow, TRANSPARENT
from ..refcodec import REGIONS

LEVEL = 'exploration'
RULE = ('random histories of 30-300 accessor calls from random initial memory; arguments in contract, biased to '
        'the right/bottom edges (crossing by -1, 0, +1 and many cells), TRANSPARENT pixels, ragged rows, map rows '
        '31/32/63, optional-field subsets for sfx/music; a case is one call; non-trivial if it is a setter or a getter '
        'whose addressed cells are not all zero; distinct by (op, args, memory hash)')
ASSUMPTIONS = [
    'out-of-contract arguments (negative offsets, ids > 255, pixel values > 16, get_rect with y+h > 64) are not generated',
    'a silent music channel is modelled as bit 6 set, bit 7 preserved; its low six bits are not judged',
    'the model is my reading of the docstrings and the PICO-8 memory map',
]
EXHAUSTIVE = {'quick': False, 'thorough': False}
PYOPT_KINDS = ('history',)
KNOWN_KEYS = {'sprite-edge-128', 'maprect-row-64'}
OPS = ('set_sprite', 'get_sprite', 'set_cell', 'get_cell', 'get_rect_tiles', 'set_rect_tiles', 'get_rect_pixels',
       'get_flags', 'set_flags', 'clear_flags', 'reset_flags', 'get_note', 'set_note', 'get_sfx_properties',
       'set_sfx_properties', 'get_channel', 'set_channel', 'get_music_properties', 'set_music_properties')


def plan(tier, seed):
    n = 16 if tier == 'quick' else 64
    return [{'kind': 'history', 'histories': 25 if tier == 'quick' else 120} for _ in range(n)]


# the documented argument type is "an iterable of iterables": lists, bytearrays, tuples, one-shot generators and iterators, the same
# object drawn twice, one row object repeated ([row] * n)
SPRITE_VARIANTS = ('lists', 'lists', 'tuples', 'generator_of_lists', 'iterators', 'same_object_twice', 'same_row_object')
RECT_VARIANTS = ('lists', 'lists', 'tuples', 'generator_of_lists', 'reversed_iterators', 'bytes_rows', 'same_object_twice')


CTX = [None]      # the shard's context, for the call-shape rotation and its feature tags


def _edge_amount(rng):
    """How far past an edge: -1, 0, +1, many."""
    return rng.choice((-3, -1, 0, 1, 2, 9, 40))


def _edge_class(d):
    return 'inside' if d < 0 else 'touch' if d == 0 else 'cross1' if d == 1 else 'crossmany'


def gen_op(rng):
    op = rng.choice(OPS)
    if op == 'set_sprite':
        if rng.random() < 0.6:
            id = rng.choice([15, 31, 240, 255, 254, 239, rng.randrange(256)])
        else:
            id = rng.randrange(256)
        xo, yo = rng.choice((0, 0, 1, 3, 7, 8, 13)), rng.choice((0, 0, 1, 3, 7, 8, 13))
        x0, y0 = (id % 16) * 8 + xo, (id // 16) * 8 + yo
        if rng.random() < 0.6:
            w = max(0, 128 - x0 + _edge_amount(rng))
            h = max(0, 128 - y0 + _edge_amount(rng))
            w, h = min(w, 40), min(h, 40)
        else:
            w, h = rng.randint(0, 17), rng.randint(0, 17)
        rows = []
        ragged = rng.random() < 0.3
        for _ in range(h):
            rw = rng.randint(0, w) if ragged else w
            rows.append([rng.choice((TRANSPARENT, rng.randrange(16), rng.randrange(16))) for _ in range(rw)])
        variant = rng.choice(SPRITE_VARIANTS)
        if variant == 'same_row_object' and rows:
            rows = [list(rows[0]) for _ in rows]
        return [op, id, rows, xo, yo, variant]
    if op == 'get_sprite':
        id = rng.choice([15, 240, 255, rng.randrange(256), rng.randrange(256)])
        return [op, id, rng.choice((1, 1, 2, 3, 17)), rng.choice((1, 1, 2, 3, 17))]
    if op in ('set_cell', 'get_cell'):
        x = rng.choice((0, 127, rng.randrange(128)))
        y = rng.choice((0, 31, 32, 63, rng.randrange(64)))
        return [op, x, y] + ([rng.randrange(256)] if op == 'set_cell' else [])
    if op in ('get_rect_tiles', 'get_rect_pixels'):
        small = op == 'get_rect_pixels'
        x = rng.choice((0, 127, 126, rng.randrange(128)))
        y = rng.choice((0, 30, 31, 32, 62, 63, rng.randrange(64)))
        h = rng.randint(1, min(64 - y, 3 if small else 64))
        if rng.random() < 0.4:
            h = 64 - y if not small else min(64 - y, 3)
        w = rng.choice((1, 2, max(1, 128 - x + _edge_amount(rng))))
        if small:
            w = min(w, 4)
        return [op, x, y, w, h]
    if op == 'set_rect_tiles':
        x = rng.choice((0, 127, 120, rng.randrange(128)))
        y = rng.choice((0, 28, 31, 32, 60, 63, rng.randrange(64)))
        w = min(30, max(0, rng.choice((rng.randint(0, 6), 128 - x + _edge_amount(rng)))))
        h = min(70, max(0, rng.choice((rng.randint(0, 6), 64 - y + _edge_amount(rng), 64 - y + 64 + rng.randint(-1, 2)))))
        ragged = rng.random() < 0.3
        rect = [[rng.randrange(256) for _ in range(rng.randint(0, w) if ragged else w)] for _ in range(h)]
        return [op, rect, x, y, rng.choice(RECT_VARIANTS)]
    if op in ('get_flags', 'set_flags', 'clear_flags', 'reset_flags'):
        return [op, rng.choice((0, 255, rng.randrange(256))), rng.choice((0, 255, 1, 128, rng.randrange(256)))]
    if op == 'get_note':
        return [op, rng.choice((0, 63, rng.randrange(64))), rng.choice((0, 31, rng.randrange(32)))]
    if op == 'set_note':
        kw = {}
        if rng.random() < 0.6:
            kw['pitch'] = rng.choice((0, 63, rng.randrange(64)))
        if rng.random() < 0.6:
            kw['waveform'] = rng.choice((0, 7, 8, 15, rng.randrange(16)))
        if rng.random() < 0.6:
            kw['volume'] = rng.choice((0, 7, rng.randrange(8)))
        if rng.random() < 0.6:
            kw['effect'] = rng.choice((0, 7, rng.randrange(8)))
        return [op, rng.choice((0, 63, rng.randrange(64))), rng.choice((0, 31, rng.randrange(32))), kw]
    if op == 'get_sfx_properties':
        return [op, rng.choice((0, 63, rng.randrange(64)))]
    if op == 'set_sfx_properties':
        kw = {k: rng.choice((0, 1, 255, rng.randrange(256)))
              for k in ('editor_mode', 'note_duration', 'loop_start', 'loop_end') if rng.random() < 0.5}
        return [op, rng.choice((0, 63, rng.randrange(64))), kw]
    if op == 'get_channel':
        return [op, rng.choice((0, 63, rng.randrange(64))), rng.randrange(4)]
    if op == 'set_channel':
        return [op, rng.choice((0, 63, rng.randrange(64))), rng.randrange(4), rng.choice((None, 0, 63, rng.randrange(64)))]
    if op == 'get_music_properties':
        return [op, rng.choice((0, 63, rng.randrange(64)))]
    if op == 'set_music_properties':
        kw = {k: rng.choice((True, False)) for k in ('begin', 'end', 'stop') if rng.random() < 0.6}
        return [op, rng.choice((0, 63, rng.randrange(64))), kw]
    raise AssertionError(op)


def call_with_defaults(ctx, fn, lead, opt, names, defaults, k):
    """Call fn(*lead, <optional arguments>) in one of the shapes the signature allows - keywords, positional, and with every optional
    argument that has its documented default value left out (all / the last / the first) - rotating with k."""
    shape = ('keywords', 'positional', 'defaults_omitted', 'keywords', 'last_omitted_if_default', 'first_omitted_if_default')[k % 6]
    if shape == 'positional':
        ctx.feature('call_shape:positional')
        return fn(*lead, *opt)
    kw = dict(zip(names, opt))
    if shape == 'defaults_omitted':
        kw = {n: v for n, v in kw.items() if v != defaults[n]}
    elif shape == 'last_omitted_if_default' and opt[-1] == defaults[names[-1]]:
        del kw[names[-1]]
    elif shape == 'first_omitted_if_default' and opt[0] == defaults[names[0]]:
        del kw[names[0]]
    if len(kw) < len(names):
        ctx.feature('call_shape:optional_argument_left_out')
        if len(kw) == len(names) - 1:
            ctx.feature('call_shape:one_of_two_optional_arguments_given')
    else:
        ctx.feature('call_shape:keywords')
    return fn(*lead, **kw)


def classify(op):
    """Mechanism key if the call exercises a (formerly) defective edge, else None."""
    name = op[0]
    if name == 'set_sprite':
        _, id, rows, xo, yo = op[:5]
        x0, y0 = (id % 16) * 8 + xo, (id // 16) * 8 + yo
        for dy, row in enumerate(rows):
            for dx, v in enumerate(row):
                if v != TRANSPARENT and (x0 + dx == 128 or y0 + dy == 128) and x0 + dx <= 128 and y0 + dy <= 128:
                    return 'sprite-edge-128'
    if name == 'set_rect_tiles':
        _, rect, x, y = op[:4]
        for dy, row in enumerate(rect):
            if 64 <= y + dy <= 127 and any(x + dx <= 127 for dx in range(len(row))):
                return 'maprect-row-64'
    return None


def apply(g, sh, op):
    """Run op on the game and the shadow -> (actual, expected) for getters, (None, None) for setters."""
    name = op[0]
    a = op[1:]
    if name == 'set_sprite':
        variant = a[4] if len(a) > 4 else 'lists'
        if variant == 'tuples':
            obj = tuple(tuple(r) for r in a[1])
        elif variant == 'generator_of_lists':
            obj = (list(r) for r in a[1])
        elif variant == 'iterators':
            obj = iter([iter(list(r)) for r in a[1]])
        elif variant == 'same_row_object':
            obj = [list(a[1][0])] * len(a[1]) if a[1] else []
        else:
            obj = [bytearray(r) if i % 2 else list(r) for i, r in enumerate(a[1])]
        call_with_defaults(CTX[0], g.gfx.set_sprite, (a[0], obj), (a[2], a[3]), ('tile_x_offset', 'tile_y_offset'),
                           {'tile_x_offset': 0, 'tile_y_offset': 0}, a[0] + a[2] + a[3])
        sh.set_sprite(a[0], a[1], a[2], a[3])
        if variant == 'same_object_twice':
            # the caller draws the same sprite object again somewhere else: it still is the sprite the caller made
            id2 = (a[0] + 17) % 256
            g.gfx.set_sprite(id2, obj, tile_x_offset=a[3], tile_y_offset=a[2])
            sh.set_sprite(id2, a[1], a[3], a[2])
    elif name == 'get_sprite':
        got = call_with_defaults(CTX[0], g.gfx.get_sprite, (a[0],), (a[1], a[2]), ('tile_width', 'tile_height'),
                                 {'tile_width': 1, 'tile_height': 1}, a[0] + a[1] + a[2])
        return [bytes(r) for r in got], [bytes(r) for r in sh.get_sprite(a[0], a[1], a[2])]
    elif name == 'set_cell':
        g.map.set_cell(*a)
        sh.set_cell(*a)
    elif name == 'get_cell':
        return g.map.get_cell(*a), sh.get_cell(*a)
    elif name == 'get_rect_tiles':
        return ([bytes(r) for r in call_with_defaults(CTX[0], g.map.get_rect_tiles, (a[0], a[1]), (a[2], a[3]), ('width', 'height'),
                                                       {'width': 1, 'height': 1}, a[0] + a[1] + a[2] + a[3])],
                [bytes(r) for r in sh.get_rect_tiles(*a)])
    elif name == 'get_rect_pixels':
        return ([bytes(r) for r in call_with_defaults(CTX[0], g.map.get_rect_pixels, (a[0], a[1]), (a[2], a[3]), ('width', 'height'),
                                                       {'width': 1, 'height': 1}, a[0] + a[1] + a[2] + a[3])],
                [bytes(r) for r in sh.get_rect_pixels(*a)])
    elif name == 'set_rect_tiles':
        variant = a[3] if len(a) > 3 else 'lists'
        if variant == 'tuples':
            obj = tuple(tuple(r) for r in a[0])
        elif variant == 'generator_of_lists':
            obj = (list(r) for r in a[0])
        elif variant == 'reversed_iterators':
            obj = reversed([reversed(list(reversed(r))) for r in reversed(a[0])])
        elif variant == 'bytes_rows':
            obj = [bytes(r) for r in a[0]]
        else:
            obj = [list(r) for r in a[0]]
        g.map.set_rect_tiles(obj, a[1], a[2])
        sh.set_rect_tiles(a[0], a[1], a[2])
        if variant == 'same_object_twice':
            x2, y2 = (a[1] + 5) % 128, (a[2] + 3) % 64
            g.map.set_rect_tiles(obj, x2, y2)
            sh.set_rect_tiles(a[0], x2, y2)
    elif name == 'get_flags':
        return g.gff.get_flags(*a), sh.get_flags(*a)
    elif name in ('set_flags', 'clear_flags', 'reset_flags'):
        getattr(g.gff, name)(*a)
        getattr(sh, name)(*a)
    elif name == 'get_note':
        return tuple(g.sfx.get_note(*a)), sh.get_note(*a)
    elif name == 'set_note':
        g.sfx.set_note(a[0], a[1], **a[2])
        sh.set_note(a[0], a[1], **a[2])
    elif name == 'get_sfx_properties':
        return tuple(g.sfx.get_properties(a[0])), sh.get_sfx_properties(a[0])
    elif name == 'set_sfx_properties':
        g.sfx.set_properties(a[0], **a[1])
        sh.set_sfx_properties(a[0], **a[1])
    elif name == 'get_channel':
        return g.music.get_channel(*a), sh.get_channel(*a)
    elif name == 'set_channel':
        g.music.set_channel(*a)
        actual = bytes(g.music.to_bytes())[a[0] * 4 + a[1]]
        sh.set_channel(a[0], a[1], a[2], actual_byte=actual)
    elif name == 'get_music_properties':
        return tuple(g.music.get_properties(a[0])), sh.get_music_properties(a[0])
    elif name == 'set_music_properties':
        g.music.set_properties(a[0], **a[1])
        sh.set_music_properties(a[0], **a[1])
    else:
        raise AssertionError(name)
    return None, None


def step(ctx, g, sh, op, history, init):
    """One monitored call.  Returns False when the history must be abandoned."""
    CTX[0] = ctx
    name = op[0]
    is_get = name.startswith('get_')
    key = classify(op)
    ctx.feature('op:' + name)
    if name == 'set_sprite':
        _, id, rows, xo, yo = op[:5]
        ctx.feature('sprite_arg:' + (op[5] if len(op) > 5 else 'lists'))
        x0, y0 = (id % 16) * 8 + xo, (id // 16) * 8 + yo
        w = max([len(r) for r in rows] or [0])
        if w and rows:
            ctx.feature('sprite_x_' + _edge_class(x0 + w - 128))
            ctx.feature('sprite_y_' + _edge_class(y0 + len(rows) - 128))
        if any(TRANSPARENT in r for r in rows):
            ctx.feature('sprite_transparent')
        if len({len(r) for r in rows}) > 1:
            ctx.feature('sprite_ragged')
    elif name == 'set_rect_tiles':
        _, rect, x, y = op[:4]
        ctx.feature('rect_arg:' + (op[4] if len(op) > 4 else 'lists'))
        w = max([len(r) for r in rect] or [0])
        if w and rect:
            ctx.feature('rect_x_' + _edge_class(x + w - 128))
            ctx.feature('rect_y_' + _edge_class(y + len(rect) - 64))
            if y <= 31 and y + len(rect) > 32:
                ctx.feature('rect_spans_shared_boundary')
    elif name in ('set_cell', 'get_cell'):
        ctx.feature('cell_row_%s' % ('31' if op[2] == 31 else '32' if op[2] == 32 else '63' if op[2] == 63 else 'other'))
    elif name == 'get_sprite':
        ctx.feature('getsprite_x_' + _edge_class((op[1] % 16) + op[2] - 16))
        ctx.feature('getsprite_y_' + _edge_class((op[1] // 16) + op[3] - 16))
    elif name in ('get_rect_tiles', 'get_rect_pixels'):
        ctx.feature('getrect_x_' + _edge_class(op[1] + op[3] - 128))
    case = {'init': init, 'ops': history + [op]}
    try:
        got, want = apply(g, sh, op)
    except Exception as e:
        ctx.case((name, repr(op[1:]), bytes(sh.mem)))
        ctx.violation('%s%r raised %r (call %d of the history)' % (name, _short(op[1:]), e, len(history) + 1),
                      case, key=key)
        return False
    ctx.monitor('calls_observed')
    nontrivial = True
    if is_get:
        ctx.monitor('getter_results_compared')
        nontrivial = got not in (0, None, (0, 0, 0, 0), (False, False, False)) and (
            not isinstance(got, list) or any(any(r) for r in got))
        if got != want:
            ctx.case((name, repr(op[1:]), bytes(sh.mem)))
            ctx.violation('%s%r returned %s, model predicts %s' % (name, _short(op[1:]), _short(got), _short(want)),
                          case, key=key)
            return False
    ctx.case((name, repr(op[1:]), bytes(sh.mem)), nontrivial=nontrivial)
    regs = carts.game_regions(g)
    for rn, _ in REGIONS:
        ctx.monitor('region_comparisons')
        if regs[rn] != sh.region(rn):
            a, b = regs[rn], sh.region(rn)
            if len(a) != len(b):
                msg = 'region %s has length %d' % (rn, len(a))
            else:
                d = next(i for i in range(len(a)) if a[i] != b[i])
                msg = 'region %s offset 0x%x is %02x, model says %02x' % (rn, d, a[d], b[d])
            ctx.violation('after %s%r: %s' % (name, _short(op[1:]), msg), case, key=key)
            return False
    return True


def _short(x):
    s = repr(x)
    return s if len(s) < 300 else s[:300] + '...'


FILE_KINDS = ('p8', 'p8_map_first', 'p8_no_map', 'p8_no_gff', 'png', 'p8_short_gfx', 'p8_no_gfx', 'p8_short_map_sfx')


def game_from_file(rng, regions):
    """The same cart obtained by loading a reference-written file: .p8 (also with sections in another order or with the map
    section left out, as newer PICO-8 versions do for empty sections) or .p8.png.  -> (game, memory it must hold, source tag)"""
    import io
    from pico8.game.formatter.p8 import P8Formatter
    from pico8.game.formatter.p8png import P8PNGFormatter
    from .. import refcodec as rc
    kind = rng.choice(FILE_KINDS)
    regions = dict(regions)
    if kind == 'png':
        data = rc.write_p8png(regions, rc.raw_code_area(b'x=1'), 8)
        return P8PNGFormatter.from_file(io.BytesIO(data)), regions, kind
    regions['music'] = rc.music_mask(regions['music'])
    if kind == 'p8':
        data = rc.write_p8(regions, b'x=1\n', version=8)
    elif kind == 'p8_map_first':
        data = rc.write_p8(regions, b'x=1\n', version=8, order=('lua', 'map', 'gff', 'gfx', 'sfx', 'music'))
    elif kind == 'p8_no_map':
        regions['map'] = bytes(4096)       # an omitted section reads as the empty default (all zero for the map)
        data = rc.write_p8(regions, b'x=1\n', version=8, omit=('map',))
    elif kind == 'p8_short_gfx':
        # as current PICO-8 saves a cart whose sprite sheet is used only at the top: the section ends after its last used row (the
        # rest, the half shared with the map's rows 32-63 included, is zero)
        keep = rng.choice((1, 8, 63, 64, 65, 100)) * 64
        regions['gfx'] = bytes(regions['gfx'][:keep]) + bytes(8192 - keep)
        data = rc.write_p8(regions, b'x=1\n', version=8, trim=('gfx',))
    elif kind == 'p8_no_gfx':
        regions['gfx'] = bytes(8192)
        data = rc.write_p8(regions, b'x=1\n', version=8, omit=('gfx',))
    elif kind == 'p8_short_map_sfx':
        keep = rng.choice((1, 5, 31)) * 128
        regions['map'] = bytes(regions['map'][:keep]) + bytes(4096 - keep)
        from pico8.game.game import Game
        empty = carts.game_regions(Game.make_empty_game())
        k2 = rng.choice((1, 10, 63)) * 68
        regions['sfx'] = bytes(regions['sfx'][:k2]) + bytes(empty['sfx'][k2:])
        data = rc.write_p8(regions, b'x=1\n', version=8, trim=('map', 'sfx'))
    else:
        regions['gff'] = bytes(256)
        data = rc.write_p8(regions, b'x=1\n', version=8, omit=('gff',))
    return P8Formatter.from_file(io.BytesIO(data)), regions, kind


def run_history(ctx, rng, nops):
    regions, mode = carts.random_regions(rng)
    if rng.random() < 0.35:
        try:
            g, regions, src_kind = game_from_file(rng, regions)
        except Exception as e:
            ctx.violation('loading a reference-written cart failed: %r' % (e,), {'init': b'', 'ops': []})
            return False
        ctx.feature('game_loaded_from:' + src_kind)
        init = b''.join(regions[n] for n, _ in REGIONS)
        if carts.game_memory(g) != init:
            ctx.violation('a cart loaded from a reference-written %s file does not hold the bytes the file encodes' % src_kind,
                          {'init': init, 'ops': []})
            return False
    else:
        init = b''.join(regions[n] for n, _ in REGIONS)
        g = carts.make_game(regions)
    sh = Shadow(init)
    ctx.feature('init_' + mode)
    bystander = None
    if rng.random() < 0.4:
        # a second cart made from the first one's regions (sections built from what to_bytes() hands out, the way a cart is cloned or
        # a sprite sheet reused): the history runs on one of the two, the other must keep its bytes
        from pico8.gfx.gfx import Gfx
        from pico8.gff.gff import Gff
        from pico8.map.map import Map
        from pico8.sfx.sfx import Sfx
        from pico8.music.music import Music
        from pico8.game.game import Game
        c = Game(filename=None)
        c.version = g.version
        c.lua = g.lua
        c.gfx = Gfx.from_bytes(g.gfx.to_bytes(), version=8)
        c.gff = Gff.from_bytes(g.gff.to_bytes(), version=8)
        c.map = Map.from_bytes(g.map.to_bytes(), version=8, gfx=c.gfx)
        c.sfx = Sfx.from_bytes(g.sfx.to_bytes(), version=8)
        c.music = Music.from_bytes(g.music.to_bytes(), version=8)
        c.label = None
        if rng.random() < 0.5:
            g, bystander = c, g
            ctx.feature('history_on_the_clone')
        else:
            bystander = c
            ctx.feature('history_on_the_original')
    history = []
    for _ in range(nops):
        op = gen_op(rng)
        if not step(ctx, g, sh, op, history, init):
            return False
        history.append(op)
        if bystander is not None and op[0].startswith('set_') or op[0] in ('clear_flags', 'reset_flags'):
            if bystander is not None:
                ctx.monitor('bystander_cart_comparisons')
                if carts.game_memory(bystander) != init:
                    now = carts.game_memory(bystander)
                    d = next((i for i in range(min(len(now), len(init))) if now[i] != init[i]), min(len(now), len(init)))
                    ctx.violation('after %s on one cart, byte 0x%x of ANOTHER cart (made from the first one\'s regions with from_bytes) '
                                  'changed from %02x to %02x' % (op[0], d, init[d], now[d] if d < len(now) else -1),
                                  {'init': init, 'ops': history, 'history': 'two carts, one cloned from the other via from_bytes(to_bytes())'})
                    return False
        if len(history) > 400:
            break
    ctx.feature('histories_completed')
    return True


def run_shard(spec, ctx):
    rng = ctx.rng
    for i in range(spec['histories']):
        run_history(ctx, rng, rng.randint(30, 300))
    ctx.sample({'example_op': gen_op(rng)})


def replay(case, ctx):
    CTX[0] = ctx
    init = case['init']
    g = carts.make_game({n: init[a:b] for n, (a, b) in REGIONS})
    sh = Shadow(init)
    hist = []
    for op in case['ops']:
        if op[0] in ('set_note', 'set_sfx_properties', 'set_music_properties'):
            pass
        if not step(ctx, g, sh, op, hist, init):
            return
        hist.append(op)


def gates(m, tier):
    f, mon = m['features'], m['monitors']
    missed = []
    for op in OPS:
        if f.get('op:' + op, 0) < 100:
            missed.append('accessor %s called %d times (<100)' % (op, f.get('op:' + op, 0)))
    for ax in ('sprite_x_', 'sprite_y_', 'rect_x_', 'rect_y_'):
        for c in ('inside', 'touch', 'cross1', 'crossmany'):
            if f.get(ax + c, 0) < 10:
                missed.append('edge class %s%s seen %d times' % (ax, c, f.get(ax + c, 0)))
    for k in ['sprite_arg:' + v for v in set(SPRITE_VARIANTS)] + ['rect_arg:' + v for v in set(RECT_VARIANTS)]:
        if f.get(k, 0) < 20:
            missed.append('%s seen %d times' % (k, f.get(k, 0)))
    if f.get('history_on_the_clone', 0) < 5 or f.get('history_on_the_original', 0) < 5 or mon.get('bystander_cart_comparisons', 0) < 500:
        missed.append('two-cart histories: on the clone %d, on the original %d, bystander comparisons %d' % (
            f.get('history_on_the_clone', 0), f.get('history_on_the_original', 0), mon.get('bystander_cart_comparisons', 0)))
    for k in ('sprite_transparent', 'sprite_ragged', 'rect_spans_shared_boundary', 'cell_row_31', 'cell_row_32', 'cell_row_63'):
        if f.get(k, 0) < 10:
            missed.append('%s seen %d times' % (k, f.get(k, 0)))
    for k in FILE_KINDS:
        if f.get('game_loaded_from:' + k, 0) < 3:
            missed.append('histories on a game loaded from %s: %d' % (k, f.get('game_loaded_from:' + k, 0)))
    for k in ('keywords', 'positional', 'optional_argument_left_out', 'one_of_two_optional_arguments_given'):
        if f.get('call_shape:' + k, 0) < 200:
            missed.append('calls in the shape %s: %d' % (k, f.get('call_shape:' + k, 0)))
    if f.get('histories_completed', 0) < 50:
        missed.append('only %d histories ran to completion' % f.get('histories_completed', 0))
    return missed
