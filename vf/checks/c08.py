"""C08 — the parser consumes every valid program entirely and builds the tree it denotes.

Monitor: programs are drawn from the dialect grammar (vf.progen) together with their expected tree, rendered in
random layouts (vf.layout) and parsed by the real Lua.from_lines.  The exposed tree (Lua.root, the vocabulary
printast shows) is normalised (vf.ptree) and compared with the expected tree: statement kinds and nesting,
targets, name/parameter/argument lists, call/index/field/method chains, table fields, each expression's
operators and operands in source order; every token from root.end_pos on must be whitespace or comment.
Short-ifs: the tree comparison decides which statements a short-if owns (its line) and which are siblings.
"""
from .. import progen, layout, ptree, reflex
from .. import ambient

LEVEL = 'exploration'
RULE = ('programs derived from the dialect grammar of DESIGN.md Appendix A (all statement kinds, all operators, all literal forms, short-if with '
        'else / several statements / return / break / one-line blocks, `?`, labels and gotos, parenthesised prefixes incl. operator expressions, '
        'nested one-line short-ifs) at nesting depth 1-3 (thorough: up to 5), each in a random layout (tight, normal, one statement per line, wild with '
        'comments and line breaks between arbitrary tokens; LF/CRLF; with/without final newline); non-trivial: >= 8 significant tokens; distinct by '
        'source hash')
ASSUMPTIONS = [
    'expected trees erase parentheses and precedence, as the property statement does ("operators and operands in source order")',
    'statements starting with "(" are preceded by ";" so that the expected tree is unambiguous',
    'the dialect is the generator grammar; e.g. `while (c) stmt`, `?x,y` and newer compound operators are not generated as valid input',
]
EXHAUSTIVE = {'quick': False, 'thorough': False}
PYOPT_KINDS = (None,)
KNOWN_KEYS = {'nested-short-if'}
NODE_FEATS = ['StatAssignment', 'StatAssignment:compound', 'StatFunctionCall', 'StatDo', 'StatWhile', 'StatRepeat', 'StatIf', 'StatForStep',
              'StatForIn', 'StatFunction', 'StatLocalFunction', 'StatLocalAssignment', 'StatGoto', 'StatLabel', 'StatBreak', 'StatReturn',
              'VarIndex', 'VarAttribute', 'FunctionCall', 'FunctionCallMethod', 'Function', 'TableConstructor', 'FieldExpKey',
              'FieldNamedKey', 'FieldExp', 'ExpBinOp', 'ExpUnOp', 'VarargDots', 'shortif', 'shortif-else', 'qprint', 'elseif', 'else']


def plan(tier, seed):
    n = 16 if tier == 'quick' else 64
    specs = [{'count': 150 if tier == 'quick' else 900, 'deep': tier == 'thorough' and i % 4 == 0} for i in range(n)]
    for i in range(3 if tier == 'quick' else 12):
        specs.append({'kind': 'big', 'count': 2, 'bias': ('shortif', 'blocks', 'mixed')[i % 3]})
    return specs


def shortif_context(p, src):
    """Which situations a short-if line ends in (coverage only)."""
    out = set()
    toks = reflex.lex(src)
    sig = [t for t in toks if t.sig]
    for (i, j, kind) in p.scopes:
        if kind is not True or p.toks[i][1] != b'if':
            continue
        last = sig[j]
        k = toks.index(last) + 1
        rest = toks[k:]
        if not any(t.kind == 'newline' for t in rest):
            out.add('shortif-at-eof-no-newline')
        else:
            before_nl = []
            for t in rest:
                if t.kind == 'newline':
                    break
                before_nl.append(t)
            if any(t.kind == 'comment' for t in before_nl):
                out.add('shortif-before-comment')
            if j + 1 < len(sig):
                out.add('shortif-followed-by-code')
            else:
                out.add('shortif-last-statement')
        if i > 0 and any(a < i and b > j for (a, b, _) in []) is False:
            pass
    return out


def check_program(ctx, p, src, tag):
    from pico8.lua import lua, lexer
    case = {'src': src, 'tag': tag, 'feats': sorted(p.feats)}
    ctx.case(src, nontrivial=len(p.toks) >= 8)
    for f in p.feats:
        if f in NODE_FEATS or f in ('nested-short-if', 'paren-op-prefix', 'semicolon', 'paren-statement-guard',
                                    'shortif-return', 'shortif-break', 'shortif-oneline-block', 'qprint-parens', 'qprint-string'):
            ctx.feature(f)
    key = 'nested-short-if' if 'nested-short-if' in p.feats else None
    try:
        L = lua.Lua.from_lines([src], version=ambient.VERSION[0])
    except Exception as e:
        ctx.violation('valid program rejected: %s' % (e,), case, key=key)
        return
    ctx.monitor('programs_parsed')
    rest = [t for t in L.tokens[L.root.end_pos:]
            if not isinstance(t, (lexer.TokSpace, lexer.TokNewline, lexer.TokComment))]
    if rest:
        ctx.violation('parser stopped before the end: %d significant tokens left, first %r' % (len(rest), rest[0]), case, key=key)
        return
    try:
        got = ptree.norm_chunk(L.root)
    except Exception as e:
        ctx.violation('exposed tree cannot be walked: %r' % (e,), case, key=key)
        return
    ctx.monitor('trees_compared')
    d = ptree.first_diff(p.tree, got)
    if d:
        # attribute to the known mechanism only if the difference is a statement-ownership difference
        k = key if key and ('elements' in d or 'Stat' in d) else None
        ctx.violation('tree differs from the program: expected vs exposed at %s' % d, case, key=k)
        return
    # the tree as a walker sees it ("the tree walked by build"): a BaseASTWalker subclass that overrides nothing but the token hook is
    # handed the token-valued fields in source order
    class TokenOrder(lua.BaseASTWalker):
        def _walk_token(self, token):
            yield token
    try:
        seen = list(TokenOrder(L.tokens, L.root).walk())
    except Exception as e:
        ctx.violation('walking the tree with a BaseASTWalker subclass raised %r' % (e,), case)
        return
    index = {id(t): k for k, t in enumerate(L.tokens)}
    pos = [index.get(id(t), -1) for t in seen]
    ctx.monitor('walker_token_visits', len(pos))
    for k in range(1, len(pos)):
        if pos[k] <= pos[k - 1]:
            ctx.violation('a tree walker is handed token %r (token %d of the source) after token %r (token %d): operands out of source order' % (
                bytes(seen[k].code)[:20], pos[k], bytes(seen[k - 1].code)[:20], pos[k - 1]), case)
            return
    for c in shortif_context(p, src):
        ctx.feature(c)


def render_tree(value, indent=0, prefix=''):
    """The text `printast` documents for a tree: a node is its class name followed by its fields (`* name: `), a list is `[list:]`
    followed by its items (`- `), anything else is its str(); two blanks of indentation per level."""
    from pico8.lua import parser
    out = []
    if isinstance(value, parser.Node):
        out.append('%s%s%s\n' % (' ' * indent, prefix, type(value).__name__))
        for field in value._fields:
            out.extend(render_tree(getattr(value, field), indent + 2, '* %s: ' % field))
    elif isinstance(value, (list, tuple)):
        out.append('%s%s[list:]\n' % (' ' * indent, prefix))
        for item in value:
            out.extend(render_tree(item, indent + 2, '- '))
    else:
        out.append('%s%s%s\n' % (' ' * indent, prefix, value))
    return out


def check_printast(ctx, p, src, workdir):
    """`p8tool printast cart.p8`: the tree of the cart as loaded from the file is the program's tree, and what is printed is that tree."""
    import io
    import os
    from pico8 import tool, util
    from pico8.game import file as p8file
    from .. import refcodec as rc, carts
    case = {'src': src, 'tag': 'printast', 'feats': sorted(p.feats)}
    regions, _ = carts.random_regions(ctx.rng, 'zero')
    cart = os.path.join(workdir, ambient.BASE[0] + '.p8')
    with open(cart, 'wb') as fh:
        fh.write(rc.write_p8_variant(ctx.rng, regions, src, version=ambient.VERSION[0]))
    buf = io.StringIO()
    saved = (util._write_stream, util._verbosity)
    util._write_stream = buf
    util.set_verbosity(util.VERBOSITY_NORMAL)      # (the tree is written with util.write: nothing is printed at quiet verbosity)
    try:
        rcode = tool.main(['printast', cart])
    except Exception as e:
        ctx.violation('p8tool printast raised %r on a valid program' % (e,), case)
        return
    finally:
        util._write_stream, util._verbosity = saved
    ctx.monitor('printast_runs')
    if rcode:
        ctx.violation('p8tool printast returned %r on a valid program' % (rcode,), case)
        return
    g = p8file.from_file(cart)
    d = ptree.first_diff(p.tree, ptree.norm_chunk(g.lua.root))
    if d:
        ctx.violation('tree of the cart loaded from a .p8 file differs from the program: %s' % d, case)
        return
    want = ''.join(render_tree(g.lua.root))
    got = buf.getvalue()
    if got != want:
        gl, wl = got.splitlines(), want.splitlines()
        k = next((i for i in range(min(len(gl), len(wl))) if gl[i] != wl[i]), min(len(gl), len(wl)))
        ctx.violation('printast prints something else than the tree the library exposes: line %d is %r, the tree has %r (%d vs %d lines)' % (
            k + 1, gl[k] if k < len(gl) else None, wl[k] if k < len(wl) else None, len(gl), len(wl)), case)


def reuse_parser(ctx, rng, parser_obj, p, src):
    """History: the same Parser instance parses program after program (the class documents one instance per thread), with
    failing parses in between; each valid program must still produce its tree."""
    from pico8.lua import lexer, parser
    case = {'src': src, 'tag': 'reused-parser', 'feats': sorted(p.feats)}
    lx = lexer.Lexer(version=ambient.VERSION[0])
    lx.process_lines([src])
    try:
        parser_obj.process_tokens(lx.tokens)
    except Exception as e:
        ctx.violation('a reused Parser instance rejected a valid program: %s' % (e,), case)
        return
    ctx.monitor('reused_parser_parses')
    root = parser_obj.root
    rest = [t for t in lx.tokens[root.end_pos:] if not isinstance(t, (lexer.TokSpace, lexer.TokNewline, lexer.TokComment))]
    if rest:
        ctx.violation('a reused Parser instance stopped before the end (%d tokens left)' % len(rest), case)
        return
    d = ptree.first_diff(p.tree, ptree.norm_chunk(root))
    if d:
        ctx.violation('a reused Parser instance built a different tree: %s' % d, case)


def poison_parser(rng, parser_obj, p):
    """Feed the reused parser a broken variant of the program (errors are expected and ignored)."""
    from pico8.lua import lexer
    toks = list(p.toks)
    if not toks:
        return
    cut = rng.randrange(len(toks))
    broken = b' '.join(raw for k, raw in toks[:cut]) + rng.choice((b'\n', b' ( \n', b'\nend\n', b' ,\n'))
    # the error often lands inside a one-line short-if body when the cut falls there
    try:
        lx = lexer.Lexer(version=ambient.VERSION[0])
        lx.process_lines([broken])
        parser_obj.process_tokens(lx.tokens)
    except Exception:
        return True
    return False


def run_big(spec, ctx):
    """Cart-sized programs: hundreds of statements in one chunk (several hundred short-ifs / block statements in total, none deeply
    nested), the sizes at which per-program counters or limits inside a parser would show."""
    rng = ctx.rng
    bias = {'shortif': ['shortif'] * 40, 'blocks': ['if', 'do', 'while', 'forstep', 'function', 'repeat'] * 6,
            'mixed': ['shortif'] * 12 + ['if', 'do', 'forin', 'localfunction', 'qprint', 'compound'] * 3}[spec['bias']]
    done = 0
    for i in range(spec['count'] * 4):
        if done >= spec['count']:
            break
        p = progen.gen_program(rng, {'depth': 2, 'max_stmts': 2, 'top_stmts': (500, 350)[i % 2], 'stat_bias': bias,
                                     'exotic_numbers': True, 'exotic_strings': True, 'goto': False, 'multiline_strings': False})
        src = layout.render(p, rng, style=rng.choice(('normal', 'lines', 'tight')))
        if src is None:
            ctx.monitor('generator_rejects')
            continue
        nshort = sum(1 for (a, b, k) in p.scopes if k is True and p.toks[a][1] == b'if')
        nblocks = sum(1 for (k, raw) in p.toks if k == 'keyword' and raw in (b'do', b'then', b'function', b'repeat'))
        ctx.feature('big_programs')
        done += 1
        if nshort > 200:
            ctx.feature('program_with_over_200_short_ifs')
        if nblocks > 250:
            ctx.feature('program_with_over_250_blocks')
        ctx.monitor('big_program_tokens', len(p.toks))
        check_program(ctx, p, src, 'big')
    ctx.sample({'big_program': '350-500 top-level statements biased to %s' % spec['bias']})


def run_shard(spec, ctx):
    rng = ctx.rng
    if spec.get('kind') == 'big':
        run_big(spec, ctx)
        return
    from pico8.lua import parser as _parser
    shared = _parser.Parser(version=ambient.VERSION[0])
    for i in range(spec['count']):
        depth = rng.choice((1, 2, 2, 3, 3)) if not spec.get('deep') else rng.choice((3, 4, 5))
        opts = {'depth': depth, 'max_stmts': 4 if depth <= 3 else 2, 'exotic_numbers': True, 'exotic_strings': True,
                'paren_op_prefix': rng.random() < 0.3, 'nested_short_if': rng.random() < 0.15}
        p = progen.gen_program(rng, opts)
        src = layout.render(p, rng)
        if src is None:
            ctx.monitor('generator_rejects')
            continue
        ctx.feature('depth_%d' % depth)
        check_program(ctx, p, src, 'program')
        if i % 8 == 1 and b'\r' not in src:
            import tempfile
            with tempfile.TemporaryDirectory(prefix='vf-c08-') as wd:
                check_printast(ctx, p, src, wd)
        if i % 5 == 2 and b'\r' not in src:
            # classic-Mac line ends: every line break a lone CR (the lexer has a newline rule for it); the tree is the same tree
            cr = src.replace(b'\n', b'\r')
            if layout.verify_tokens_only(p, cr):
                ctx.feature('bare_cr_line_ends')
                if 'shortif' in p.feats:
                    ctx.feature('bare_cr_with_short_if')
                check_program(ctx, p, cr, 'program-cr')
        if i % 3 == 0:
            if poison_parser(rng, shared, p):
                ctx.feature('failed_parse_before_reuse')
            reuse_parser(ctx, rng, shared, p, src)
        if i == 0:
            ctx.sample({'source': src[:240]})


def replay(case, ctx):
    # rebuild expectation by re-parsing is impossible; replay re-runs the parse and reports consumption,
    # and re-checks the tree against the recorded features by regenerating is not possible either:
    # the full-tree oracle needs the generator state, so replay reports what is observable from the source.
    from pico8.lua import lua, lexer
    src = case['src']
    try:
        L = lua.Lua.from_lines([src], version=ambient.VERSION[0])
    except Exception as e:
        ctx.violation('valid program rejected: %s' % (e,), case, key='nested-short-if' if 'nested-short-if' in case.get('feats', []) else None)
        return
    rest = [t for t in L.tokens[L.root.end_pos:] if not isinstance(t, (lexer.TokSpace, lexer.TokNewline, lexer.TokComment))]
    if rest:
        ctx.violation('parser stopped before the end', case)
        return
    # short-if ownership from the source alone: every short-if node must end on its own line
    toks = L.tokens

    def walk(n):
        from pico8.lua import parser
        if isinstance(n, parser.Node):
            if type(n).__name__ == 'StatIf' and getattr(n, 'short_if', False):
                span = toks[n.start_pos:n.end_pos]
                # strip leading whitespace
                k = 0
                while k < len(span) and isinstance(span[k], (lexer.TokSpace, lexer.TokNewline, lexer.TokComment)):
                    k += 1
                if any(isinstance(t, lexer.TokNewline) for t in span[k:]):
                    ctx.violation('short-if node spans more than its line', case,
                                  key='nested-short-if' if 'nested-short-if' in case.get('feats', []) else None)
            for f in n._fields:
                walk(getattr(n, f))
        elif isinstance(n, (list, tuple)):
            for x in n:
                walk(x)
    walk(L.root)
    ctx.case(src)


def gates(m, tier):
    f, mon = m['features'], m['monitors']
    missed = []
    for k in NODE_FEATS:
        if f.get(k, 0) < 20:
            missed.append('node/feature %s seen %d times (<20)' % (k, f.get(k, 0)))
    for k in ('shortif-at-eof-no-newline', 'shortif-before-comment', 'shortif-followed-by-code', 'shortif-return', 'paren-op-prefix',
              'semicolon', 'paren-statement-guard', 'qprint-parens', 'qprint-string'):
        if f.get(k, 0) < 5:
            missed.append('%s seen %d times' % (k, f.get(k, 0)))
    if mon.get('reused_parser_parses', 0) < 200 or f.get('failed_parse_before_reuse', 0) < 50:
        missed.append('parser reuse: %d parses, %d after a failed parse' % (mon.get('reused_parser_parses', 0), f.get('failed_parse_before_reuse', 0)))
    if f.get('program_with_over_200_short_ifs', 0) < 1 or f.get('program_with_over_250_blocks', 0) < 1 or f.get('big_programs', 0) < 4:
        missed.append('big programs %d (over 200 short-ifs: %d, over 250 blocks: %d)' % (
            f.get('big_programs', 0), f.get('program_with_over_200_short_ifs', 0), f.get('program_with_over_250_blocks', 0)))
    if f.get('bare_cr_with_short_if', 0) < 30:
        missed.append('bare-CR sources with a short-if: %d' % f.get('bare_cr_with_short_if', 0))
    if mon.get('printast_runs', 0) < 100:
        missed.append('printast runs: %d' % mon.get('printast_runs', 0))
    if mon.get('walker_token_visits', 0) < 5000:
        missed.append('tokens handed to a tree walker: %d' % mon.get('walker_token_visits', 0))
    if mon.get('trees_compared', 0) < 1000:
        missed.append('trees compared: %d' % mon.get('trees_compared', 0))
    return missed
