"""C15 — P8SCII <-> Unicode conversion is a bijection on all byte strings.

Monitor: the real converters (pico8.lua.lua.p8scii_to_unicode / unicode_to_p8scii) are run on
all 256 single bytes and all 65,536 byte pairs (complete), on random long strings, and through
a .p8 file written and re-read by the real formatter; the oracle is the identity plus the
table properties named in the statement (distinct spellings, prefix-freeness, UTF-8 encodable).
"""
import io
from .. import ambient

LEVEL = 'exploration'
RULE = ('all 256 single bytes and all 65,536 ordered byte pairs enumerated completely; plus random '
        'byte strings (length 2..64k, uniform and glyph-heavy) and comment lines carrying every byte '
        'through P8Formatter.to_file/from_file; a case is non-trivial if it has >= 2 bytes; distinct by content hash')
ASSUMPTIONS = [
    'prefix-freeness of the 256 spellings plus pair round trip is taken to imply all strings (as the property text says); long random strings are sampled on top',
    'the .p8 path is exercised with bytes inside Lua comments (LF excluded) so that the lexer accepts them',
]
EXHAUSTIVE = {'quick': True, 'thorough': True}
PYOPT_KINDS = ('random',)
CLOCALE_KINDS = ('file',)
TIMEOUT = {'quick': 600, 'thorough': 1800}


def plan(tier, seed):
    specs = [{'kind': 'table'}]
    # pairs split in 8 shards by first byte
    for i in range(8):
        specs.append({'kind': 'pairs', 'lo': i * 32, 'hi': (i + 1) * 32})
    n = 4 if tier == 'quick' else 12
    for i in range(n):
        specs.append({'kind': 'random', 'count': 150 if tier == 'quick' else 600,
                      'maxlen': 4096 if tier == 'quick' else 65536})
    specs.append({'kind': 'file', 'count': 6 if tier == 'quick' else 40})
    specs.append({'kind': 'file_shapes', 'count': 6 if tier == 'quick' else 30})
    specs.append({'kind': 'history', 'count': 40 if tier == 'quick' else 400})
    return specs


def _rt(ctx, lua, b, tag):
    # a P8SCII byte string is any bytes-like object: bytes, a bytearray (a ROM or cart-data buffer), a view into one
    k = ctx.monitors.get('roundtrips', 0) % 3
    arg = (b, bytearray(b), memoryview(b))[k]
    ctx.feature('argument_type:' + ('bytes', 'bytearray', 'memoryview')[k])
    try:
        u = lua.p8scii_to_unicode(arg)
        u.encode('utf-8')
        back = lua.unicode_to_p8scii(u)
    except Exception as e:
        ctx.violation('%s: conversion raised %r' % (tag, e), {'kind': 'rt', 'bytes': b})
        return
    ctx.monitor('roundtrips')
    if back != b:
        ctx.violation('%s: round trip %r -> %r -> %r' % (tag, b[:40], u[:40], back[:40]),
                      {'kind': 'rt', 'bytes': b})


def run_shard(spec, ctx):
    from pico8.lua import lua
    kind = spec['kind']
    rng = ctx.rng
    if kind == 'table':
        spell = []
        for b in range(256):
            s = lua.p8scii_to_unicode(bytes([b]))
            spell.append(s)
            ctx.case(bytes([b]), nontrivial=False)
            ctx.monitor('table_entries')
            try:
                s.encode('utf-8')
            except UnicodeError as e:
                ctx.violation('byte %d: spelling %r not UTF-8 encodable: %s' % (b, s, e),
                              {'kind': 'table'})
            if len(s) == 0:
                ctx.violation('byte %d has empty spelling' % b, {'kind': 'table'})
            for _ in range(3):      # (each argument type in turn)
                _rt(ctx, lua, bytes([b]), 'single')
        for i in range(256):
            for j in range(256):
                if i != j:
                    ctx.monitor('prefix_pairs_checked')
                    if spell[i] == spell[j]:
                        ctx.violation('bytes %d and %d share spelling %r' % (i, j, spell[i]), {'kind': 'table'})
                    elif spell[j].startswith(spell[i]):
                        ctx.violation('spelling of %d (%r) is a prefix of that of %d (%r)' % (
                            i, spell[i], j, spell[j]), {'kind': 'table'})
        ctx.sample({'byte': 131, 'spelling': spell[131]})
        ctx.feature('singles_complete')
    elif kind == 'pairs':
        for a in range(spec['lo'], spec['hi']):
            for b in range(256):
                bs = bytes((a, b))
                ctx.case(bs)
                _rt(ctx, lua, bs, 'pair')
        ctx.feature('pair_rows_complete', spec['hi'] - spec['lo'])
    elif kind == 'random':
        glyphs = bytes(range(128, 256)) + bytes(range(16, 32))
        for i in range(spec['count']):
            n = rng.choice((2, 3, 7, 64, 500, rng.randint(2, spec['maxlen'])))
            mode = rng.randrange(3)
            if mode == 0:
                bs = bytes(rng.getrandbits(8) for _ in range(n))
            elif mode == 1:
                bs = bytes(rng.choice(glyphs) for _ in range(n))
            else:  # runs of multi-code-point glyphs next to each other and ascii
                pool = bytes((131, 139, 142, 145, 148, 65, 10, 0, 127, 255))
                bs = bytes(rng.choice(pool) for _ in range(n))
            ctx.case(bs)
            ctx.feature('random_mode_%d' % mode)
            _rt(ctx, lua, bs, 'random')
            if i == 0:
                ctx.sample({'random_bytes_prefix': bs[:24], 'len': n})
    elif kind == 'history':
        history(ctx, lua, rng, spec['count'])
        ctx.sample({'history': 'unicode_to_p8scii on a bare arrow without its variation selector, then all singles + 256 pairs'})
    elif kind == 'file_shapes':
        file_shapes(ctx, lua, rng, spec['count'])
        ctx.sample({'file_shapes': 'lines over 64 KiB of UTF-8, multi-line tokens with glyphs on later lines, #include of .p8 with glyph bytes'})
    elif kind == 'file':
        from pico8.game.formatter.p8 import P8Formatter
        from pico8.game import game
        allb = [b for b in range(256) if b != 10]
        for i in range(spec['count']):
            rng.shuffle(allb)
            lines = []
            for k in range(0, len(allb), 51):
                lines.append(b'--' + bytes(allb[k:k + 51]).replace(b'\r', b'') + b'\n')
            lines.append(b'--\r\n')
            code = b''.join(lines)
            ctx.case(code)
            ctx.feature('file_cases')
            version = (0, 1, 8, 33)[i % 4]
            entry = ('stream', 'path', 'cli')[i % 3]
            ctx.feature('file_version_%d' % version)
            ctx.feature('file_entry_' + entry)
            g = game.Game.make_empty_game(version=version)
            g.lua = lua.Lua.from_lines([code], version=version)
            buf = io.BytesIO()
            try:
                if entry == 'stream':
                    P8Formatter.to_file(g, buf)
                    data = buf.getvalue()
                    data.decode('utf-8')
                    g2 = P8Formatter.from_file(io.BytesIO(data))
                else:
                    import os
                    import tempfile
                    from pico8.game import file as p8file
                    from pico8 import tool
                    with tempfile.TemporaryDirectory() as d:
                        p1 = os.path.join(d, ambient.BASE[0] + '.p8')
                        p8file.to_file(g, p1)
                        open(p1, 'rb').read().decode('utf-8')
                        if entry == 'cli':
                            if tool.main([ambient.vflag(), 'writep8', p1]):
                                raise RuntimeError('writep8 failed')
                            g2 = p8file.from_file(os.path.join(d, ambient.BASE[0] + '_fmt.p8'))
                        else:
                            g2 = p8file.from_file(p1)
                back = b''.join(g2.lua.to_lines())
            except Exception as e:
                ctx.violation('.p8 path (%s, version %d) raised %r' % (entry, version, e), {'kind': 'file', 'code': code})
                continue
            ctx.monitor('file_roundtrips')
            if back != code:
                ctx.violation('.p8 path changed code bytes', {'kind': 'file', 'code': code})


def p8_roundtrip(code, version, entry, writer=None):
    """code -> .p8 file (real writer; entry stream/path/cli) -> code of the re-read cart."""
    import os
    import tempfile
    from pico8.lua import lua
    from pico8.game.formatter.p8 import P8Formatter
    from pico8.game import game, file as p8file
    from pico8 import tool
    g = game.Game.make_empty_game(version=version)
    g.lua = lua.Lua.from_lines([code], version=version)
    kw = {'lua_writer_cls': writer} if writer is not None else {}
    if entry == 'stream':
        buf = io.BytesIO()
        P8Formatter.to_file(g, buf, **kw)
        data = buf.getvalue()
        data.decode('utf-8')
        g2 = P8Formatter.from_file(io.BytesIO(data))
    else:
        with tempfile.TemporaryDirectory() as d:
            p1 = os.path.join(d, ambient.BASE[0] + '.p8')
            p8file.to_file(g, p1, **kw)
            open(p1, 'rb').read().decode('utf-8')
            if entry == 'cli':
                if tool.main([ambient.vflag(), 'writep8', p1]):
                    raise RuntimeError('writep8 failed')
                g2 = p8file.from_file(os.path.join(d, ambient.BASE[0] + '_fmt.p8'))
            else:
                g2 = p8file.from_file(p1)
    return b''.join(g2.lua.to_lines())


def file_shapes(ctx, lua, rng, count):
    """Shapes of text in a .p8 file that a line-oriented converter could treat differently: physical lines whose Unicode spelling
    exceeds 64 KiB, multi-line tokens whose later lines carry glyphs, code brought in by #include from another .p8."""
    import os
    import tempfile
    from pico8.game import file as p8file
    from pico8.game import game
    multi = bytes((131, 139, 142, 145, 148))           # glyphs spelled with two code points (second: U+FE0F)
    three = bytes(b for b in range(128, 256) if len(lua.p8scii_to_unicode(bytes([b])).encode('utf-8')) == 3 and b not in multi)
    allglyph = bytes(range(16, 32)) + bytes(range(127, 256))
    for i in range(count):
        entry = ('stream', 'path', 'cli')[i % 3]
        version = (8, 33, 0, 41)[i % 4]
        # (a) one physical line of up to 30000 characters whose UTF-8 text exceeds 65536 bytes; the ASCII prefix shifts every boundary
        pool = (three, multi, three + multi, allglyph)[i % 4]
        n = (23000, 12000, 16000, 30000)[i % 4]
        body = bytes(rng.choice(pool) for _ in range(n))
        line = b'x' * (i % 7) + b'="' + body.replace(b'"', b'') + b'"\n'
        code = b'a=1\n' + line + b'--' + bytes(rng.choice(allglyph) for _ in range(40)) + b'\nb=2\n'
        utf8_len = len(lua.p8scii_to_unicode(line).encode('utf-8'))
        ctx.case(code)
        ctx.feature('long_line_cases')
        if utf8_len > 65536:
            ctx.feature('line_over_64k_utf8_bytes')
        if utf8_len > 131072:
            ctx.feature('line_over_128k_utf8_bytes')
        try:
            back = p8_roundtrip(code, version, entry)
        except Exception as e:
            ctx.violation('.p8 path (%s) raised %r on a line of %d characters (%d UTF-8 bytes)' % (entry, e, len(line), utf8_len),
                          {'kind': 'file', 'code': code})
            return
        ctx.monitor('file_roundtrips')
        if back != code:
            ctx.violation('.p8 path changed code bytes on a line of %d characters (%d UTF-8 bytes)' % (len(line), utf8_len),
                          {'kind': 'file', 'code': code})
            return
        # (b) multi-line tokens whose first physical line is plain and whose later lines carry glyphs
        g1 = bytes(rng.choice(allglyph) for _ in range(rng.randint(1, 30))).replace(b']', b'')
        g2 = bytes(rng.choice(allglyph) for _ in range(rng.randint(1, 30))).replace(b']', b'')
        lvl = b'=' * (i % 3)
        code = (b's=[' + lvl + b'[plain first line\n' + g1 + b'\nplain again\n' + g2 + b']' + lvl + b']\n'
                b'--[' + lvl + b'[ plain\n' + g2 + b'\n' + g1 + b' ]' + lvl + b']\nt=[[\n' + g1 + b']] u=2\n')
        ctx.case(code)
        for writer, wname in ((None, 'echo'), (lua.LuaMinifyTokenWriter, 'luamin')):
            try:
                back = p8_roundtrip(code, version, entry, writer=writer)
            except Exception as e:
                ctx.violation('.p8 path (%s, %s writer) raised %r on multi-line tokens with glyphs on later lines' % (entry, wname, e),
                              {'kind': 'file', 'code': code})
                return
            ctx.monitor('file_roundtrips')
            ctx.feature('multiline_token_cases_' + wname)
            if writer is None:
                if back != code:
                    ctx.violation('.p8 path changed code bytes inside a multi-line token', {'kind': 'file', 'code': code})
                    return
            else:
                from .. import reflex
                want = [t.value for t in reflex.sig(reflex.lex(code)) if t.kind == 'string']
                try:
                    got = [t.value for t in reflex.sig(reflex.lex(back)) if t.kind == 'string']
                except Exception as e:
                    got = repr(e)
                if got != want:
                    ctx.violation('.p8 path with the luamin writer changed the bytes of a multi-line string', {'kind': 'file', 'code': code})
                    return
        # (b1) glyphs that are whole tokens (the button names of `btn(x)`, a glyph used as a variable), also as the very last byte of
        # the code: a token writer hands them to the file writer as one-byte pieces
        keys = bytes((139, 145, 148, 131, 142, 151))
        k1, k2, k3 = (keys[(i + j) % 6:(i + j) % 6 + 1] for j in range(3))
        tail = (b'\n', b'', b' ', b'\n\n')[i % 4]
        code = (b'if btn(' + k1 + b') then\n p=btn(' + k2 + b',1)\nend\nwhile btnp(\n' + k3 + b'\n) do q=1 end\nr=' + k1 + tail)
        ctx.case(code)
        for writer, wname in ((None, 'echo'), (lua.LuaMinifyTokenWriter, 'luamin'), (lua.LuaASTEchoWriter, 'astecho'), (lua.LuaFormatterWriter, 'luafmt')):
            try:
                back = p8_roundtrip(code, version, entry, writer=writer)
            except Exception as e:
                ctx.violation('.p8 path (%s, %s writer) raised %r on code whose glyphs are whole tokens' % (entry, wname, e),
                              {'kind': 'file', 'code': code})
                return
            ctx.monitor('file_roundtrips')
            ctx.feature('glyph_token_cases_' + wname)
            if (back not in (code, code + b'\n')) if writer is None else ([c for c in back if c >= 128] != [c for c in code if c >= 128]):
                ctx.violation('.p8 path (%s writer) changed glyphs that are whole tokens: %r -> %r' % (wname, code, back), {'kind': 'file', 'code': code})
                return
        # (b2) physical lines that consist of two underscores, glyphs (and word characters), two underscores: inside a block comment,
        # inside a long string and as a name used as a statement's target -- a section header of a .p8 file is ASCII, these are code
        per = [b'__' + bytes([b]) + b'__' for b in allglyph] + [b'__a' + bytes([b]) + b'1__' for b in allglyph[i::3]] + [
            b'__' + bytes(rng.choice(allglyph[17:]) for _ in range(rng.randint(2, 8))) + b'__' for _ in range(20)]
        rng.shuffle(per)
        code = (b'--[[\n' + b'\n'.join(per[:80]) + b'\n]]\ns=[==[\n' + b'\n'.join(per[80:160]) + b'\n]==]\n' +
                b''.join(n + b'\n=1\n' for n in per[160:] if n[2] >= 128 and all(c >= 128 or c in b'_a1' for c in n)) + b'x=2\n' +
                # (words in braces, percent signs, dollar signs: text, with glyphs around them)
                b'-- {gfx} \x8e {map} \x97 {lua} {label} {version} %s ${x}\nlevels={map}\nt={sfx,music,gff}\n' +
                # (text that means something to other text formats - mark-up fences, character references, entities, escapes of other
                # languages - is code like any other: as lines of their own in a comment and a string, and as operators)
                b'--[[\n```lua\n```\n~~~\n\x8e &amp; &lt;b&gt; &#9829; &#x2665; &hearts; \\u2665 %e2%99%a5 =?utf-8?q?=E2=99=A5?=\n<!-- -->\n]]\n'
                b'doc=[[\n```\n&lt;\x97&gt;\n~~~\n]]\na=f&lt;b=f&gt;\nc=d&amp\n' +
                # (glyphs in every kind of token that can hold them: names, labels, strings, long strings, comments)
                b'::l\x80\xff:: ' + bytes(rng.choice(allglyph[17:]) for _ in range(3)) + b'=1 goto l\x80\xff\n::\x8e::\n')
        ctx.case(code)
        try:
            back = p8_roundtrip(code, version, entry)
        except Exception as e:
            ctx.violation('.p8 path (%s) raised %r on code with lines of the form __<glyphs>__' % (entry, e), {'kind': 'file', 'code': code})
            return
        ctx.monitor('file_roundtrips')
        ctx.feature('lines_of_underscored_glyph_words')
        if back != code:
            ctx.violation('.p8 path changed code bytes (lines of the form __<glyphs>__, text that looks like mark-up)', {'kind': 'file', 'code': code})
            return
        # (c) the same bytes arriving through #include of another .p8 / .lua file
        inc_code = b'--' + bytes(b for b in rng.sample(list(allglyph), 60) if b not in (10, 13)) + b'\nq="' + bytes(
            rng.choice(three + multi) for _ in range(50)) + b'"\n'
        # (inside an included cart a directive is a line of text like any other, glyphs in its name included)
        inc_code_lua = inc_code
        inc_code = inc_code + b'#include ' + bytes(rng.choice(three + multi) for _ in range(3)) + b'.lua\n--[[\n#include \x99lib.p8:1\n]]\n'
        with tempfile.TemporaryDirectory() as d:
            g = game.Game.make_empty_game(version=8)
            g.lua = lua.Lua.from_lines([inc_code], version=8)
            p8file.to_file(g, os.path.join(d, 'inc.p8'))
            # the same cart read with directive processing switched off: its own directive lines stay text
            from pico8.game.formatter.p8 import P8Formatter
            try:
                with open(os.path.join(d, 'inc.p8'), 'rb') as fh:
                    raw = b''.join(P8Formatter.from_file(fh, filename=os.path.join(d, 'inc.p8'), do_includes=False).lua.to_lines())
            except Exception as e:
                ctx.violation('reading a cart with directive processing off raised %r' % (e,), {'kind': 'file', 'code': inc_code})
                return
            ctx.monitor('file_roundtrips')
            ctx.feature('directive_lines_kept_as_text')
            if raw != inc_code:
                ctx.violation('a cart read with directive processing off does not carry its bytes (directive lines with glyphs)',
                              {'kind': 'file', 'code': inc_code})
                return
            with open(os.path.join(d, 'inc2.lua'), 'wb') as fh:
                fh.write(inc_code_lua)
            for target in ('inc.p8', 'inc2.lua'):
                main = os.path.join(d, 'main.p8')
                gm = game.Game.make_empty_game(version=8)
                gm.lua = lua.Lua.from_lines([b'z=0\n'], version=8)
                p8file.to_file(gm, main)
                text = open(main, 'rb').read().replace(b'z=0\n', b'z=0\n#include ' + target.encode() + b'\ny=1\n')
                with open(main, 'wb') as fh:
                    fh.write(text)
                ctx.case(inc_code + target.encode())
                try:
                    got = b''.join(p8file.from_file(main).lua.to_lines())
                except Exception as e:
                    ctx.violation('loading a cart that #includes %s (glyph bytes in the included code) raised %r' % (target, e),
                                  {'kind': 'file', 'code': inc_code})
                    return
                ctx.monitor('file_roundtrips')
                ctx.feature('include_cases_' + target.split('.')[-1])
                if target.endswith('.lua'):
                    # a .lua file holds what PICO-8 writes there: the same Unicode text a .p8 holds
                    pass
                if inc_code.rstrip(b'\n') not in got and target.endswith('.p8'):
                    ctx.violation('code brought in by #include %s does not carry the included cart\'s bytes' % target,
                                  {'kind': 'file', 'code': inc_code})
                    return
    # (d) the layout of the file around the code: the Lua section last, first, alone (code-only carts as PICO-8 saves them)
    from .. import refcodec as rc, carts
    from pico8.game.formatter.p8 import P8Formatter
    for j in range(count):
        code = b'--' + bytes(b for b in rng.sample(list(allglyph), 50) if b not in (10, 13)) + b'\ns="' + bytes(
            rng.choice(three + multi) for _ in range(30)) + b'"\nx=1\n'
        regions, _ = carts.random_regions(rng, 'zero')
        layouts = {'lua_last': dict(order=['gfx', 'gff', 'map', 'sfx', 'music', 'lua']),
                   'lua_only': dict(omit=('gfx', 'gff', 'map', 'sfx', 'music')),
                   'lua_middle': dict(order=['gfx', 'lua', 'map', 'gff', 'sfx', 'music']),
                   'lua_last_no_final_newline': dict(order=['gfx', 'lua'], omit=('gff', 'map', 'sfx', 'music'))}
        for lname, kw in layouts.items():
            data = rc.write_p8(regions, code, version=(8, 33)[j % 2], **kw)
            if lname.endswith('no_final_newline'):
                data = data.rstrip(b'\n')
            ctx.case(code + lname.encode())
            try:
                got = b''.join(P8Formatter.from_file(io.BytesIO(data)).lua.to_lines())
            except Exception as e:
                ctx.violation('reading a .p8 file whose Lua section is placed %s raised %r' % (lname, e), {'kind': 'file', 'code': code})
                return
            ctx.monitor('file_roundtrips')
            ctx.feature('file_layout_' + lname)
            if got.rstrip(b'\n') != code.rstrip(b'\n'):
                ctx.violation('reading a .p8 file whose Lua section is placed %s changed code bytes' % lname, {'kind': 'file', 'code': code})
                return
    # (e) P8SCII byte runs that happen to be the UTF-8 text of a glyph spelling (0xC2 0xA5 looks like the yen sign, 0xE2 0x96 0x88 like
    # the block glyph ...): in a cart they are two or three P8SCII characters, each with its own spelling
    looks = []
    for b in list(range(16, 32)) + list(range(127, 256)):
        sp = lua.p8scii_to_unicode(bytes([b])).encode('utf-8')
        if all(c >= 0x80 for c in sp):
            looks.append(sp)
    for k in range(0, len(looks), 12):
        grp = looks[k:k + 12]
        code = b''.join(b'--' + sp + b'\n' for sp in grp) + b's="' + b''.join(grp[:3]) + b'"\n' + b'--' + grp[0] + b' and ' + grp[-1] + b'\n'
        ctx.case(code)
        for entry in ('stream', 'path'):
            try:
                back = p8_roundtrip(code, (8, 33)[k % 2], entry)
            except Exception as e:
                ctx.violation('.p8 path (%s) raised %r on P8SCII bytes that look like UTF-8 glyph text' % (entry, e), {'kind': 'file', 'code': code})
                return
            ctx.monitor('file_roundtrips')
            ctx.feature('p8scii_runs_that_look_like_utf8_glyphs', len(grp))
            if back != code:
                ctx.violation('.p8 path changed code bytes (P8SCII bytes that look like the UTF-8 text of a glyph)', {'kind': 'file', 'code': code})
                return
    ctx.feature('file_shapes_done')


def history(ctx, lua, rng, count):
    """History monitor: conversions of arbitrary (also invalid) Unicode text happen between round trips; whatever they return
    or raise, the bijection must still hold afterwards."""
    stripped = ['\u2b05', '\u27a1', '\u2b07', '\u2b06', '\U0001f17e', '\ufe0f', '\u2b05x', 'a\u27a1', '\u00e9', '\U0001f600', '\u3042\ufe0f',
                '\u2b05\u2b05', '\x80', '\xa5\xa5', '\u25cb\ufe0f']
    for i in range(count):
        text = rng.choice(stripped) if rng.random() < 0.7 else ''.join(chr(rng.choice((rng.randrange(0x20, 0x3000), rng.randrange(0x1f000, 0x1f700))))
                                                                         for _ in range(rng.randint(1, 6)))
        try:
            lua.unicode_to_p8scii(text)
            ctx.feature('foreign_text_accepted')
        except Exception:
            ctx.feature('foreign_text_rejected')
        ctx.monitor('foreign_conversions')
        # afterwards: all singles and a slice of the pairs
        for b in range(256):
            _rt(ctx, lua, bytes([b]), 'single-after-foreign-text')
        a = rng.randrange(256)
        for b in range(256):
            bs = bytes((a, b))
            ctx.case(bs + b'@%d' % i)
            _rt(ctx, lua, bs, 'pair-after-foreign-text')
        if ctx.vcounts:
            return
    ctx.feature('history_done')


def replay(case, ctx):
    from pico8.lua import lua
    if case.get('kind') == 'rt':
        _rt(ctx, lua, case['bytes'], 'replay')
    elif case.get('kind') == 'table':
        run_shard({'kind': 'table'}, ctx)
    else:
        ctx.inconclusive_because('file replay: rerun the check')


def gates(m, tier):
    missed = []
    f, mon = m['features'], m['monitors']
    if f.get('singles_complete', 0) < 1 or mon.get('table_entries', 0) != 256:
        missed.append('singles not complete')
    if f.get('pair_rows_complete', 0) != 256:
        missed.append('pairs not complete (%s rows)' % f.get('pair_rows_complete'))
    if mon.get('prefix_pairs_checked', 0) != 256 * 255:
        missed.append('prefix check incomplete')
    if mon.get('file_roundtrips', 0) < 1:
        missed.append('.p8 path never exercised')
    for k in ('file_version_0', 'file_version_33', 'file_entry_stream', 'file_entry_path', 'file_entry_cli', 'history_done', 'file_shapes_done',
              'line_over_64k_utf8_bytes', 'lines_of_underscored_glyph_words', 'argument_type:bytes', 'argument_type:bytearray', 'argument_type:memoryview', 'multiline_token_cases_echo', 'multiline_token_cases_luamin', 'glyph_token_cases_echo', 'glyph_token_cases_luamin', 'glyph_token_cases_astecho', 'glyph_token_cases_luafmt', 'include_cases_p8', 'file_layout_lua_last', 'file_layout_lua_only', 'p8scii_runs_that_look_like_utf8_glyphs'):
        if f.get(k, 0) < 1:
            missed.append('%s never seen' % k)
    if mon.get('foreign_conversions', 0) < 20:
        missed.append('foreign conversions: %d' % mon.get('foreign_conversions', 0))
    for k in range(3):
        if f.get('random_mode_%d' % k, 0) < 10:
            missed.append('random mode %d under-sampled' % k)
    return missed
