"""C12 — require() and #include never read files outside the permitted directories.

Trace monitor: sys.addaudithook records every open() made while a cart is loaded (file.from_file, #include) or built
(`p8tool build --lua main.lua`, require()) inside a temp universe U/{root/, root/sub/, rootbar/ (prefix-sharing sibling),
outside/, home/.lexaloffle/pico-8/carts/...} with canary files outside every root.  In hostile-file-system mode
os.path.isfile answers yes for every non-directory path outside the permitted roots, so any candidate picotool computes there
is followed to its open() and seen by the hook.  The permitted roots are computed by the harness from the configuration
(directory of the requiring file, directories named by the load path; the include root), never from picotool.
Verdict: an open() on a path inside U but outside the permitted roots is a violation; so is canary content in the loaded code.
"""
import itertools
import os
import shutil
import tempfile

from .. import fsmon
from .. import ambient
from .. import refcodec as rc
from .. import carts

LEVEL = 'exploration'
RULE = ('all path strings of 1..N segments (quick 3, thorough 4) over {x, ., .., sub, rootbar (prefix-sharing sibling), root (the root\'s own name), '
        'empty, ?, ;} with optional leading and trailing "/", plus absolute paths into U/outside and U/rootbar: complete up to the bound; for require x '
        'load paths {default, lib/?.lua, ?/lib.lua, absolute dir, PICO8_LUA_PATH}; for #include x extensions {.lua, .p8} x cart location {plain '
        'directory, inside the fake PICO-8 carts folder, in a folder whose name extends the carts folder\'s name}; each in real and hostile file-system '
        'mode. Non-trivial: the string contains "..", is absolute, or names the sibling; distinct by (kind, string, configuration)')
ASSUMPTIONS = [
    'existence probes (isfile/stat) are recorded but not judged; only open() is',
    'a load-path pattern that itself contains ".." names the directory it resolves to from the requiring file (the user named it): such patterns appear only in the fixed project layouts of scenario_requires, where the permitted directories are spelled out',
    'a directory link the user placed inside a root counts as part of the root; a path that reaches the OS with `..` components still in it is judged by where the OS resolves it (physically); backslashes are ordinary file-name characters on this platform',
    'in hostile mode an attempted open() of a non-existent outside path counts: only non-existence prevented the read',
]
EXHAUSTIVE = {'quick': True, 'thorough': True}
PYOPT_KINDS = ('sequences',)
KNOWN_KEYS = {'include-prefix-sibling', 'require-dotdot-segment', 'carts-folder-prefix-sibling'}
SEGS = ['x', '.', '..', 'sub', 'rootbar', 'root', '', '?', ';']   # (case variants ROOT/Root/SUB/Carts/Game are driven in the sequences shard)
CANARY = b'CANARY_OUTSIDE_ROOT=1\n'
LEGIT = b'legit=1\n'
TIMEOUT = {'quick': 1500, 'thorough': 10800}


# directories whose names contain characters that mean something to pattern languages, each with neighbours such a pattern would match;
# and a `.lexaloffle/pico-8/carts*` family that is not in the user's home directory
SPECIAL_DIRS = {'game.v2': ('game-v2', 'gamexv2', 'game.v22'), 'my+proj': ('myyproj', 'myproj', 'my+proj2'), 'a(b)': ('ab', 'a(b)c'),
                'data[1]': ('data1', 'data[1]0'), 'q?x': ('qx', 'x'), 'star*': ('sta', 'starr', 'star*s'), 'c$': ('c', 'c$d'), '^d': ('d',),
                'e|f': ('e', 'f'), 'g{2}': ('gg',), '%41': ('A',), 'i j': ('i', 'ij')}
FOREIGN = 'elsewhere/.lexaloffle/pico-8/'
NAMED_DIRS = tuple(sorted(set(SPECIAL_DIRS) | {n for v in SPECIAL_DIRS.values() for n in v})) + (
    FOREIGN + 'carts-old', FOREIGN + 'carts/game', FOREIGN + 'carts.bak', 'home/.lexaloffle/pico-8/carts-old')


def strings(nmax):
    out = []
    for n in range(1, nmax + 1):
        for segs in itertools.product(SEGS, repeat=n):
            body = '/'.join(segs)
            for lead in ('', '/'):
                for trail in ('', '/'):
                    s = lead + body + trail
                    if s and ' ' not in s:
                        out.append(s)
    return sorted(set(out))


def plan(tier, seed):
    N = 3 if tier == 'quick' else 4
    total = len(strings(N))
    nsh = 16 if tier == 'quick' else 64
    specs = []
    for i in range(nsh):
        specs.append({'kind': 'enumerate', 'slice': [i, nsh], 'N': N, 'total': total})
    specs.append({'kind': 'absolute'})
    specs.append({'kind': 'links'})
    specs.append({'kind': 'names'})
    specs.append({'kind': 'sequences', 'count': 2 if tier == 'quick' else 10})
    return specs


def make_universe():
    U = tempfile.mkdtemp(prefix='vf-c12-')
    U = os.path.realpath(U)
    for d in ('root/sub', 'root/lib', 'root/x', 'rootbar/sub', 'rootbar/lib', 'outside/sub', 'outside/lib', 'abs/lib', 'ROOT/sub', 'Root',
              'home/.lexaloffle/pico-8/Carts/game', 'home/.lexaloffle/pico-8/carts/Game', 'root/SUB',
              'home/.lexaloffle/pico-8/carts/game', 'home/.lexaloffle/pico-8/carts/other', 'home/.lexaloffle/pico-8/carts2/game',
              'home/.lexaloffle/pico-8/sub', 'sub', 'lib', 'x', 'pico-8/carts/game', 'pico-8/carts/other') + NAMED_DIRS:
        os.makedirs(os.path.join(U, d), exist_ok=True)
    # legit files inside roots, canaries everywhere else
    names = ['x', 'x.lua', 'sub.lua', 'lib.lua', 'root.lua', 'rootbar.lua', 'x.p8', 'init.lua']
    for dirpath, dirs, files in os.walk(U):
        for n in names:
            p = os.path.join(dirpath, n)
            if os.path.isdir(p):
                continue
            # each file's content names its own location, so spliced code tells where it was read from
            data = b'marker("' + os.path.relpath(p, U).encode() + b'")\n'
            if n.endswith('.p8'):
                regions, _ = carts.random_regions(__import__('random').Random(1), 'zero')
                data = rc.write_p8(regions, data, version=8)
            with open(p, 'wb') as fh:
                fh.write(data)
    # directory links inside the roots that lead out of them (`link/..` is the parent of the link's target)
    for link, target in (('root/lnk', '../outside/sub'), ('root/sub/lnk2', '../../outside'),
                         ('home/.lexaloffle/pico-8/carts/game/lnk', os.path.join(U, 'outside', 'lib'))):
        os.symlink(target, os.path.join(U, link))
    # modules that exist only in directories a load path may add (never under root)
    for rel in ('abs/only_abs.lua', 'abs/lib/only_abslib.lua', 'abs/lib/only_abs.lua', 'outside/only_out.lua'):
        with open(os.path.join(U, rel), 'wb') as fh:
            fh.write(b'marker("' + rel.encode() + b'")\n')
    return U


def classify_include(s, cfg, outside_paths, roots=()):
    """Prefix mechanisms: the opened path is textually prefixed by a root (or by the carts folder) without being inside it."""
    for p, m in outside_paths:
        if os.sep + 'carts2' + os.sep in p or cfg == 'carts2':
            return 'carts-folder-prefix-sibling'
        for r in roots:
            if p.startswith(fsmon._norm(r)):
                return 'include-prefix-sibling'
    return None


def classify_require(s, outside_paths):
    if '..' in s.split('/') and './' not in s and not s.startswith('/'):
        return 'require-dotdot-segment'
    return None


def run_include(ctx, U, s, ext, cfg, hostile):
    from pico8.game import file as p8file
    home = os.path.join(U, 'home')
    if cfg == 'plain':
        cartdir = os.path.join(U, 'root')
        roots = [cartdir]
    elif cfg == 'carts':
        cartdir = os.path.join(home, '.lexaloffle/pico-8/carts/game')
        roots = [os.path.join(home, '.lexaloffle/pico-8/carts')]
    elif cfg == 'subdir':
        cartdir = os.path.join(U, 'root', 'sub')
        roots = [cartdir]
    elif cfg == 'cwdcarts':
        # a folder that is called pico-8/carts relative to the working directory is not the PICO-8 carts folder
        cartdir = os.path.join(U, 'pico-8', 'carts', 'game')
        roots = [cartdir]
    elif cfg.startswith('dir:'):
        cartdir = os.path.join(U, cfg[4:])
        roots = [cartdir]
    else:  # a folder whose name merely extends the carts folder's name: the cart's own directory is the root
        cartdir = os.path.join(home, '.lexaloffle/pico-8/carts2/game')
        roots = [cartdir]
    cart = os.path.join(cartdir, 'cart_main.p8')
    regions, _ = carts.random_regions(ctx.rng, 'zero')
    code = b'a=1\n#include ' + s.encode() + ext.encode() + b'\nb=2\n'
    with open(cart, 'wb') as fh:
        fh.write(rc.write_p8(regions, code, version=8))
    case = {'kind': 'include', 'string': s + ext, 'cfg': cfg, 'hostile': hostile}
    nontrivial = '..' in s.split('/') or s.startswith('/') or 'rootbar' in s
    ctx.case(('include', s, ext, cfg, hostile), nontrivial=nontrivial)
    old_home = os.environ.get('HOME')
    os.environ['HOME'] = home
    err = None
    loaded = None
    # the cart is named absolutely, by its bare name from its own directory, or relative to a directory above it
    open_as = ('absolute', 'absolute', 'bare', 'relative')[(len(s) + len(cfg) + (1 if hostile else 0)) % 4]
    old_cwd = os.getcwd()
    cart_arg = cart
    if open_as == 'bare':
        os.chdir(cartdir)
        cart_arg = os.path.basename(cart)
    elif open_as == 'relative':
        os.chdir(U)
        cart_arg = os.path.relpath(cart, U)
    if cfg == 'cwdcarts':
        os.chdir(U)
        cart_arg = cart if open_as == 'absolute' else os.path.relpath(cart, U)
    ctx.feature('cart_named_' + open_as)
    via_stream = cfg == 'plain' and (len(s) + (1 if hostile else 0)) % 5 == 0
    if via_stream:
        # the library API on an open stream, without a file name: whatever it does with include lines, it has no business outside
        # the cart's directory (which is also the working directory here)
        os.chdir(cartdir)
        ctx.feature('cart_loaded_from_stream_without_name')
    try:
        with fsmon.Watch(U, roots, hostile) as w:
            try:
                if via_stream:
                    from pico8.game.formatter.p8 import P8Formatter
                    with open(cart, 'rb') as fh:
                        g = P8Formatter.from_file(fh)
                else:
                    g = p8file.from_file(cart_arg)
                loaded = b''.join(g.lua.to_lines())
            except BaseException as e:
                err = e
    finally:
        os.chdir(old_cwd)
        if old_home is None:
            os.environ.pop('HOME', None)
        else:
            os.environ['HOME'] = old_home
        os.remove(cart)
    ctx.monitor('include_loads')
    ctx.monitor('open_events_seen', len(w.events))
    ctx.monitor('isfile_probes_seen', len(w.probes))
    if not any(p == fsmon._norm(cart) for p, m in w.events):
        ctx.inconclusive_because('audit hook did not see the legitimate open of the cart itself')
        return
    ctx.monitor('legitimate_opens_seen')
    ctx.feature('include_cfg:' + cfg)
    ctx.feature('hostile' if hostile else 'real_fs')
    if err is not None:
        ctx.feature('include_rejected')
    else:
        ctx.feature('include_loaded')
    out = w.outside()
    if out:
        ctx.violation('#include %s (cart in %s, %s fs) opened %s, outside the include root %s' % (
            s + ext, cfg, 'hostile' if hostile else 'real', sorted({os.path.relpath(p, U) for p, m in out}),
            [os.path.relpath(r, U) for r in roots]), case, key=classify_include(s, cfg, out, roots))
        return
    if loaded is not None:
        import re
        for mm in re.finditer(rb'marker\("([^"]*)"\)', loaded):
            src = os.path.join(U, mm.group(1).decode())
            ctx.monitor('spliced_files_located')
            # content reached through a directory link the user placed inside the root is the root's content
            via_link = {os.path.realpath(p) for p, m in w.events if fsmon.inside(p, [fsmon._norm(r) for r in roots])}
            if not fsmon.inside(fsmon._norm(src), [fsmon._norm(r) for r in roots]) and os.path.realpath(src) not in via_link:
                ctx.violation('#include %s spliced the content of %s, outside the include root' % (s + ext, mm.group(1)), case,
                              key=classify_include(s, cfg, [(fsmon._norm(src), 'r')], roots))
                return


LOAD_PATHS = ('default', 'rel_lib', 'q_lib', 'abs', 'env')


def run_require(ctx, U, s, lp, hostile, form=None, literal=None, home=None, maindir='root', outdir=None):
    """literal: the bytes to put between the quotes of the string literal when they are not simply s (escapes, raw high bytes);
    s then only labels the case."""
    from pico8 import tool
    root = os.path.join(U, maindir)
    main = os.path.join(root, 'main_req.lua')
    # (the output cart may be built somewhere else: where it is written is not a place to look for required files)
    out = os.path.join(root if outdir is None else os.path.join(U, outdir), 'out_req.p8')
    if literal is not None:
        form = 'literal'
    elif '"' in s or '\\' in s:
        return
    if form is None:
        # (chosen by a checksum of the case, not by hash(): the same case takes the same form in every process)
        import zlib
        form = ('paren', 'paren', 'paren', 'string_call', 'long_string_call', 'nested_string_call')[
            zlib.crc32(('%s|%s|%d' % (s, lp, hostile)).encode('utf-8', 'surrogateescape')) % 6] if ']]' not in s and "'" not in s else 'paren'
    with open(main, 'wb') as fh:
        if form == 'literal':
            fh.write(b'q=1\nrequire("' + literal + b'")\n')
        elif form == 'paren':
            fh.write(b'q=1\nrequire("' + s.encode() + b'")\n')
        elif form == 'string_call':
            fh.write(b'q=1\nrequire "' + s.encode() + b'"\n')
        elif form == 'long_string_call':
            fh.write(b'q=1\nrequire [[' + s.encode() + b']]\n')
        else:
            fh.write(b"q=1\nprint(require '" + s.encode() + b"')\n")
    ctx.feature('require_form:' + form)
    argv = [ambient.vflag(), 'build', out, '--lua', main]
    roots = [root]
    env_path = None
    if lp == 'rel_lib':
        argv += ['--lua-path', 'lib/?.lua;?.lua']
    elif lp == 'q_lib':
        argv += ['--lua-path', '?/lib.lua;?/init.lua;?']
    elif lp == 'abs':
        argv += ['--lua-path', os.path.join(U, 'abs', 'lib', '?.lua') + ';?.lua']
        roots.append(os.path.join(U, 'abs', 'lib'))
    elif lp == 'env':
        env_path = '?;?.lua;' + os.path.join(U, 'abs', '?.lua')
        roots.append(os.path.join(U, 'abs'))
    case = {'kind': 'require', 'string': s, 'load_path': lp, 'hostile': hostile, 'maindir': maindir, 'home': bool(home), 'outdir': outdir}
    if literal is not None:
        case['literal'] = literal
    nontrivial = '..' in s.split('/') or s.startswith('/') or 'rootbar' in s
    ctx.case(('require', s, lp, hostile), nontrivial=nontrivial)
    old = os.environ.get('PICO8_LUA_PATH')
    os.environ.pop('PICO8_LUA_PATH', None)
    if env_path:
        os.environ['PICO8_LUA_PATH'] = env_path
    old_home = os.environ.get('HOME')
    if home:
        os.environ['HOME'] = home
    err = None
    rcode = None
    old_cwd = os.getcwd()
    named = ('absolute', 'absolute', 'bare', 'relative')[(len(s) + len(lp) + (1 if hostile else 0)) % 4]
    if named == 'bare':
        os.chdir(root)
        argv = [os.path.basename(a) if a in (main, out) else a for a in argv]
    elif named == 'relative':
        os.chdir(U)
        argv = [os.path.relpath(a, U) if a in (main, out) else a for a in argv]
    ctx.feature('main_named_' + named)
    try:
        with fsmon.Watch(U, roots, hostile) as w:
            try:
                rcode = tool.main(argv)
            except BaseException as e:
                err = e
    finally:
        os.chdir(old_cwd)
        if home:
            if old_home is None:
                os.environ.pop('HOME', None)
            else:
                os.environ['HOME'] = old_home
        os.environ.pop('PICO8_LUA_PATH', None)
        if old is not None:
            os.environ['PICO8_LUA_PATH'] = old
        for f in (main, out):
            if os.path.exists(f):
                os.remove(f)
    ctx.monitor('require_builds')
    ctx.monitor('open_events_seen', len(w.events))
    ctx.monitor('isfile_probes_seen', len(w.probes))
    if not any(p == fsmon._norm(main) for p, m in w.events):
        ctx.inconclusive_because('audit hook did not see the legitimate open of the main file')
        return
    ctx.monitor('legitimate_opens_seen')
    ctx.feature('load_path:' + lp)
    ctx.feature('hostile' if hostile else 'real_fs')
    ctx.feature('require_rejected' if (err is not None or rcode) else 'require_built')
    if literal is None and ('..' in s.split('/') or s.startswith('/')) and err is None and not rcode:
        # the other half of the statement: such strings are refused with an error, wherever they would lead
        ctx.violation('require("%s") with load path %s (%s fs) was accepted: the build succeeded' % (s, lp, 'hostile' if hostile else 'real'), case)
        return
    outp = [(p, m) for p, m in w.outside() if p != fsmon._norm(out)]
    if outp:
        ctx.violation('require("%s") with load path %s (%s fs) opened %s, outside %s' % (
            s, lp, 'hostile' if hostile else 'real', sorted({os.path.relpath(p, U) for p, m in outp}),
            [os.path.relpath(r, U) for r in roots]), case, key=classify_require(s, outp))


def nested_require(ctx, U, hostile):
    from pico8 import tool
    root = os.path.join(U, 'root')
    main = os.path.join(root, 'main_nested.lua')
    out = os.path.join(root, 'out_nested.p8')
    inner = os.path.join(root, 'sub', 'nest_pkg.lua')
    only_main_dir = os.path.join(root, 'only_next_to_main.lua')
    for lp in ('default', 'rel_lib'):
        with open(main, 'wb') as fh:
            fh.write(b'require("sub/nest_pkg")\n')
        with open(inner, 'wb') as fh:
            fh.write(b'require("only_next_to_main")\n')
        with open(only_main_dir, 'wb') as fh:
            fh.write(b'marker("root/only_next_to_main.lua")\n')
        argv = [ambient.vflag(), 'build', out, '--lua', main] + (['--lua-path', 'lib/?.lua;?.lua'] if lp == 'rel_lib' else [])
        case = {'kind': 'require', 'string': 'only_next_to_main (from sub/nest_pkg.lua)', 'load_path': lp, 'hostile': hostile}
        ctx.case(('nested-require', lp, hostile), nontrivial=True)
        try:
            with fsmon.Watch(U, [root], hostile) as w:
                try:
                    tool.main(argv)
                except BaseException:
                    pass
        finally:
            for f in (main, out, inner, only_main_dir):
                if os.path.exists(f):
                    os.remove(f)
        ctx.monitor('require_builds')
        if not any(p == fsmon._norm(inner) for p, m in w.events):
            ctx.inconclusive_because('audit hook did not see the legitimate open of the nested package file')
            return
        ctx.monitor('legitimate_opens_seen')
        ctx.feature('nested_require_from_subdirectory')
        bad = [p for p, m in w.events if p == fsmon._norm(only_main_dir)]
        if bad:
            ctx.violation('require("only_next_to_main") inside root/sub/nest_pkg.lua (load path %s, %s fs) opened root/only_next_to_main.lua, '
                          'which is neither under the requiring file\'s directory root/sub nor under a load path directory' % (
                              lp, 'hostile' if hostile else 'real'), case)
            return


def nested_escape(ctx, U, hostile):
    """The strings a PACKAGE passes to require() are judged like those of the main program: `../`, a leading `/` and `./` are refused
    there too, and nothing outside the permitted directories is opened."""
    from pico8 import tool
    root = os.path.join(U, 'root')
    main = os.path.join(root, 'main_nested_esc.lua')
    out = os.path.join(root, 'out_nested_esc.p8')
    inner = os.path.join(root, 'sub', 'nest_esc.lua')
    for s_ in ('../../outside/x', '../x', '../../x', os.path.join(U, 'outside', 'x'), '../../rootbar/x', 'lnk2/../x'):
        for depth in (1, 2):
            with open(main, 'wb') as fh:
                fh.write(b'require("sub/nest_esc")\n')
            with open(inner, 'wb') as fh:
                fh.write(b'require("nest_esc2")\n' if depth == 2 else b'q=require("' + s_.encode() + b'")\n')
            inner2 = os.path.join(root, 'sub', 'nest_esc2.lua')
            if depth == 2:
                with open(inner2, 'wb') as fh:
                    fh.write(b'return require("' + s_.encode() + b'")\n')
            case = {'kind': 'nested_escape', 'string': s_, 'depth': depth, 'hostile': hostile}
            ctx.case(('nested-escape', s_, depth, hostile), nontrivial=True)
            err = rcode = None
            try:
                with fsmon.Watch(U, [root], hostile) as w:
                    try:
                        rcode = tool.main([ambient.vflag(), 'build', out, '--lua', main])
                    except BaseException as e:
                        err = e
            finally:
                for f in (main, out, inner, inner2):
                    if os.path.exists(f):
                        os.remove(f)
            ctx.monitor('require_builds')
            if not any(p_ == fsmon._norm(inner) for p_, m in w.events):
                ctx.inconclusive_because('audit hook did not see the legitimate open of the nested package file')
                return
            ctx.monitor('legitimate_opens_seen')
            ctx.feature('escaping_string_inside_a_package')
            if err is None and not rcode:
                ctx.violation('require("%s") inside a package (%d levels below the main program, %s fs) was accepted: the build succeeded' % (
                    s_, depth, 'hostile' if hostile else 'real'), case)
                return
            outp = w.outside()
            if outp:
                ctx.violation('require("%s") inside a package (%d levels below the main program, %s fs) opened %s, outside root' % (
                    s_, depth, 'hostile' if hostile else 'real', sorted({os.path.relpath(p_, U) for p_, m in outp})), case)
                return


def scenario_requires(ctx, U, hostile):
    """Small project layouts in which WHICH file is the requiring file matters: (a) a load path with a pattern relative to the requiring
    file's parent (`../?.lua`: the user named that directory) - after a package found there has been loaded, the main file's next
    require() is still the main file's; (b) a package outside the project (found through an absolute entry) requires a name that is
    not next to it: nothing above it is a place to look."""
    from pico8 import tool
    layouts = (
        ('ancestor_pattern', {'ws/game/main.lua': b'require("local_a")\nrequire("shared")\nrequire("top_secret")\n', 'ws/game/local_a.lua': b'a=1\n',
                              'ws/shared.lua': b'shared=1\n', 'top_secret.lua': b'marker("top_secret.lua")\n', 'ws/game/sub/deeper.lua': b'd=1\n'},
         'ws/game/main.lua', '?.lua;../?.lua', ['ws'], ['top_secret.lua']),
        ('ancestor_pattern_two', {'ws/game/main.lua': b'x=require("shared")\ny=require("other_top")\n', 'ws/shared.lua': b'return 1\n',
                                  'other_top.lua': b'marker("other_top.lua")\n'},
         'ws/game/main.lua', '../?.lua;?.lua', ['ws'], ['other_top.lua']),
        ('package_outside_project', {'ws/game/main.lua': b'net=require("net")\n', 'vendor/p8libs/net.lua': b'c=require("credentials")\n',
                                     'vendor/credentials.lua': b'marker("vendor/credentials.lua")\n', 'credentials.lua': b'marker("credentials.lua")\n'},
         'ws/game/main.lua', '?.lua;' + os.path.join(U, 'vendor', 'p8libs', '?.lua'), ['ws/game', 'vendor/p8libs'],
         ['vendor/credentials.lua', 'credentials.lua']),
        # a load path entry without a pattern character names nothing but itself; the directory next to it whose name continues it
        # is not a load path directory
        ('entry_without_pattern', {'ws/game/main.lua': b's=require("-private/secret")\nt=require("s/inner")\n', 'vendor/p8libs/net.lua': b'n=1\n',
                                   'vendor/p8libs-private/secret.lua': b'marker("vendor/p8libs-private/secret.lua")\n',
                                   'vendor/p8libss/inner.lua': b'marker("vendor/p8libss/inner.lua")\n'},
         'ws/game/main.lua', '?;?.lua;' + os.path.join(U, 'vendor', 'p8libs'), ['ws/game', 'vendor/p8libs'],
         ['vendor/p8libs-private/secret.lua', 'vendor/p8libss/inner.lua']),
        # what a program assigns to `package.path` is its own business at run time: the build's load path is the user's
        ('program_assigns_package_path', {'ws/game/main.lua': b'package.path = "lib/?.lua;' + os.path.join(U, 'outside').encode() + b'/?.lua"\n'
                                                              b'm=require("only_out")\n'},
         'ws/game/main.lua', None, ['ws/game'], ['outside/only_out.lua']),
        ('program_extends_package_path', {'ws/game/main.lua': b'package.path = package.path .. ";' + os.path.join(U, 'outside').encode() + b'/?.lua"\n'
                                                              b'm=require("only_out")\n', 'ws/game/lib/a.lua': b'a=1\n'},
         'ws/game/main.lua', '?.lua;lib/?.lua', ['ws/game'], ['outside/only_out.lua']),
        # a load path entry spelled `./?.lua` is relative to the requiring file like any other relative entry, not to the directory
        # the command happens to run in
        ('dot_slash_entry', {'ws/game/main.lua': b'm=require("only_in_cwd")\n', 'elsewhere_cwd/only_in_cwd.lua': b'marker("elsewhere_cwd/only_in_cwd.lua")\n'},
         'ws/game/main.lua', './?.lua;?.lua', ['ws/game'], ['elsewhere_cwd/only_in_cwd.lua'], 'elsewhere_cwd'),
        # a package that is a cart (load path pattern `.../?.p8`) and has an #include line: whatever becomes of it, the file of that
        # name next to the MAIN program is not the cart's
        ('package_is_a_cart_with_include', {'ws/game/main.lua': b'c=require("cartlib/cartlib")\n',
                                            'vendor/p8libs/cartlib/cartlib.p8': rc.write_p8(carts.random_regions(__import__('random').Random(3), 'zero')[0],
                                                                                           b'#include helper.lua\nlib=1\n', version=8),
                                            'vendor/p8libs/cartlib/helper.lua': b'helper=1\n', 'ws/game/helper.lua': b'marker("ws/game/helper.lua")\n'},
         'ws/game/main.lua', '?.lua;' + os.path.join(U, 'vendor', 'p8libs', '?.p8'), ['ws/game', 'vendor/p8libs'], ['ws/game/helper.lua']),
    )
    for name, files, main_rel, lua_path, roots_rel, canaries, *more in layouts:
        made = []
        for rel, data in files.items():
            pth = os.path.join(U, rel)
            os.makedirs(os.path.dirname(pth), exist_ok=True)
            with open(pth, 'wb') as fh:
                fh.write(data)
            made.append(pth)
        main = os.path.join(U, main_rel)
        out = os.path.join(os.path.dirname(main), 'out_scn.p8')
        roots = [os.path.join(U, r) for r in roots_rel]
        case = {'kind': 'scenario', 'string': name, 'load_path': (lua_path or '(default)').replace(U, '$U'), 'hostile': hostile}
        ctx.case(('scenario', name, hostile), nontrivial=True)
        old_cwd = os.getcwd()
        try:
            if more:
                os.chdir(os.path.join(U, more[0]))
            with fsmon.Watch(U, roots, hostile) as w:
                try:
                    tool.main([ambient.vflag(), 'build', out, '--lua', main] + (['--lua-path', lua_path] if lua_path is not None else []))
                except BaseException:
                    pass
        finally:
            os.chdir(old_cwd)
            for f in made + [out]:
                if os.path.exists(f):
                    os.remove(f)
        ctx.monitor('require_builds')
        if not any(p == fsmon._norm(main) for p, m in w.events):
            ctx.inconclusive_because('audit hook did not see the legitimate open of the main file')
            return
        ctx.monitor('legitimate_opens_seen')
        ctx.feature('require_scenario:' + name)
        # files that no require() of the layout names and no cart of the layout may include: opened at all, they were reached
        # through another file's directive
        named = [(p_, m) for p_, m in w.events if p_ in {fsmon._norm(os.path.join(U, c)) for c in canaries}]
        outp = w.outside() or named
        if outp:
            ctx.violation('project layout %s (load path %s, %s fs): opened %s, outside the directories of the requiring files and of the load '
                          'path %s' % (name, case['load_path'], 'hostile' if hostile else 'real', sorted({os.path.relpath(p, U) for p, m in outp}),
                                       roots_rel), case)
            return


def carts_folder_lookup(ctx, U, hostile):
    """A cart that lives in the carts folder, named by its bare file name from another working directory that holds files of the names
    the cart includes.  Whether or not such a name is found, nothing of the working directory is the cart's."""
    from pico8.game import file as p8file
    from pico8 import tool
    home = os.path.join(U, 'home')
    cartsdir = os.path.join(home, '.lexaloffle', 'pico-8', 'carts')
    regions, _ = carts.random_regions(__import__('random').Random(2), 'zero')
    for sub, name in (('', 'lookup_cart.p8'), ('game', 'lookup_cart2.p8')):
        cart = os.path.join(cartsdir, sub, name)
        with open(cart, 'wb') as fh:
            fh.write(rc.write_p8(regions, b'a=1\n#include x.lua\n#include sub/x.lua\nb=2\n', version=8))
        old_home = os.environ.get('HOME')
        old_cwd = os.getcwd()
        try:
            for cwd in ('x', 'root', 'outside', 'home'):
                for typed in (name, os.path.join(sub, name) if sub else './' + name):
                    for entry in ('library', 'listlua', 'stats'):
                        os.environ['HOME'] = home
                        os.chdir(os.path.join(U, cwd))
                        case = {'kind': 'carts_folder_lookup', 'string': typed, 'cwd': cwd, 'entry': entry, 'hostile': hostile}
                        ctx.case(('carts_folder_lookup', typed, cwd, entry, hostile), nontrivial=True)
                        with fsmon.Watch(U, [cartsdir], hostile) as w:
                            try:
                                if entry == 'library':
                                    p8file.from_file(typed)
                                else:
                                    tool.main([ambient.vflag(), entry, typed])
                            except BaseException:
                                pass
                        ctx.monitor('carts_folder_lookups')
                        ctx.feature('cart_of_the_carts_folder_named_bare_from_elsewhere')
                        # (the typed name itself may be probed where it was typed: that is the name the user gave)
                        outp = [(p_, m) for p_, m in w.outside() if os.path.basename(p_) != name]
                        if outp:
                            ctx.violation('cart name %r typed in %s (HOME has a carts folder holding such a cart; %s, %s fs): opened %s, outside the carts '
                                          'folder' % (typed, cwd, entry, 'hostile' if hostile else 'real', sorted({os.path.relpath(p_, U) for p_, m in outp})), case)
                            return
        finally:
            os.chdir(old_cwd)
            if old_home is None:
                os.environ.pop('HOME', None)
            else:
                os.environ['HOME'] = old_home
            if os.path.exists(cart):
                os.remove(cart)


def poison(ctx, U):
    """A load that fails half-way (an included cart that does not lex) and a build that fails in require(): state left behind
    by a failed operation must not widen what the next one may read."""
    from pico8.game import file as p8file
    from pico8 import tool
    regions, _ = carts.random_regions(ctx.rng, 'zero')
    root = os.path.join(U, 'root')
    with open(os.path.join(root, 'broken_inc.p8'), 'wb') as fh:
        fh.write(rc.write_p8(regions, b'x = "unterminated\n', version=8))
    cart = os.path.join(root, 'poison_cart.p8')
    with open(cart, 'wb') as fh:
        fh.write(rc.write_p8(regions, b'#include broken_inc.p8\n', version=8))
    try:
        p8file.from_file(cart)
    except BaseException:
        ctx.feature('failed_load_before_case')
    main = os.path.join(root, 'poison_main.lua')
    with open(main, 'wb') as fh:
        fh.write(b'require("sub/needs_missing")\n')
    with open(os.path.join(root, 'sub', 'needs_missing.lua'), 'wb') as fh:
        fh.write(b'require("not_there_at_all")\n')
    try:
        tool.main([ambient.vflag(), 'build', os.path.join(root, 'poison_out.p8'), '--lua', main])
    except BaseException:
        ctx.feature('failed_build_before_case')
    for f in (cart, main, os.path.join(root, 'poison_out.p8')):
        if os.path.exists(f):
            os.remove(f)


def run_shard(spec, ctx):
    U = make_universe()
    try:
        if spec['kind'] == 'sequences':
            # histories: a failing operation, then escapes that only a stale include root / working directory would allow
            for rep in range(spec['count']):
                for hostile in (False, True):
                    poison(ctx, U)
                    for s_ in ('../x', '../lib', '../sub/../x', '../root', '../../root/x', '../x/../x'):
                        run_include(ctx, U, s_, '.lua', 'subdir', hostile)
                        run_include(ctx, U, s_, '.p8', 'subdir', hostile)
                    poison(ctx, U)
                    for s_ in ('../x', '..', 'sub/../../x', 'x'):
                        for lp in LOAD_PATHS:
                            for form in ('paren', 'string_call', 'long_string_call', 'nested_string_call'):
                                run_require(ctx, U, s_, lp, hostile, form=form)
                    # the same name resolved under a permissive load path first, then under a restrictive one
                    for s_ in ('x', 'lib', 'init', 'sub/x'):
                        for lp_first in ('env', 'abs'):
                            run_require(ctx, U, s_, lp_first, hostile)
                            run_require(ctx, U, s_, 'default', hostile)
                            run_require(ctx, U, s_, 'rel_lib', hostile)
                    # a module only an added directory provides: found while the load path names that directory, and out of reach
                    # once it does not (lookups remembered from an earlier build would keep it reachable)
                    for s_, lp_first in (('only_abs', 'env'), ('only_abslib', 'abs'), ('only_abs', 'abs'), ('lib/only_abs', 'env')):
                        for lp_then in ('default', 'rel_lib', 'q_lib'):
                            form = ('paren', 'string_call', 'nested_string_call')[rep % 3]
                            run_require(ctx, U, s_, lp_first, hostile, form=form)
                            run_require(ctx, U, s_, lp_then, hostile, form=form)
                            ctx.feature('module_only_on_added_path_then_path_dropped')
                    # case variants of the root's own name are different directories
                    for s_ in ('../ROOT/sub/x', '../Root/x', '../../ROOT/x', 'SUB/x', '../SUB/x'):
                        run_include(ctx, U, s_, '.lua', 'subdir', hostile)
                        run_include(ctx, U, s_, '.lua', 'plain', hostile)
                    for s_ in ('../Game/x', '../../Carts/game/x', '../../Carts/x'):
                        run_include(ctx, U, s_, '.lua', 'carts', hostile)
                        run_include(ctx, U, s_, '.lua', 'carts2', hostile)
            ctx.feature('sequences_done')
            return
        if spec['kind'] == 'links':
            # (a) directory links before a `..`; (b) the other platform's separator; (c) bytes that a lossy decoding would drop
            for hostile in (False, True):
                for s_ in ('lnk/../x', 'lnk/../../outside/x', 'lnk/../sub/x', 'lnk/../lnk/../x', 'sub/lnk2/../x', 'sub/lnk2/../sub/x',
                           'lnk/x', 'sub/lnk2/x', 'lnk/../../root/x', 'x/../lnk/../x'):
                    for cfg in ('plain', 'subdir', 'carts'):
                        run_include(ctx, U, s_, '.lua', cfg, hostile)
                    run_include(ctx, U, s_, '.p8', 'plain', hostile)
                    for lp in LOAD_PATHS:
                        run_require(ctx, U, s_, lp, hostile, form='paren')
                    ctx.feature('strings_through_directory_links')
                # values in which a backslash is followed by digits / letters that mean something to template and pattern languages
                for s_ in ('\\056\\056/x', '\\056\\056/outside/x', '\\x2e\\x2e/x', '\\g<0>/../x', '\\1/../x', '\\.\\./x', '\\056/x', 'sub/\\056\\056/\\056\\056/x',
                           '\\056\\056\\057x', '\\n/../x'):
                    for lp in LOAD_PATHS:
                        run_require(ctx, U, s_, lp, hostile, literal=s_.encode().replace(b'\\', b'\\\\'))
                    ctx.feature('strings_with_backslash_digit_values')
                for s_ in ('..\\x', '..\\..\\outside\\x', 'sub\\..\\..\\outside\\x', '.\\..\\x', '..\\/x', 'sub/..\\..\\x', '..\\sub\\x',
                           '\\..\\x', 'x\\..\\..\\x', '..\\rootbar\\x'):
                    for cfg in ('plain', 'subdir', 'carts', 'carts2'):
                        run_include(ctx, U, s_, '.lua', cfg, hostile)
                    run_include(ctx, U, s_, '.p8', 'plain', hostile)
                    for lp in LOAD_PATHS:
                        run_require(ctx, U, s_, lp, hostile, literal=s_.encode().replace(b'\\', b'\\\\'))
                    ctx.feature('strings_with_backslash_separators')
                for target in ('outside/x', 'outside/sub/x', 'rootbar/x'):
                    ap = os.path.join(U, target).encode()
                    for pre in (b'\xff', b'\xc3', b'\xe3\x81', b'\x80\x80', b'\\255', b'\\xff', b'\xff.', b'\xff/'):
                        for lp in LOAD_PATHS:
                            run_require(ctx, U, repr(pre + ap), lp, hostile, literal=pre + ap)
                            run_require(ctx, U, repr(pre + b'../x'), lp, hostile, literal=pre + b'../x')
                        ctx.feature('strings_with_undecodable_bytes')
                for s_ in ('../x', '../other/x', '../../x', '../../../x', 'x', '../game/x'):
                    run_include(ctx, U, s_, '.lua', 'cwdcarts', hostile)
                    run_include(ctx, U, s_, '.p8', 'cwdcarts', hostile)
                    ctx.feature('cart_under_cwd_relative_carts_folder')
                # (d) strings a shell would expand: the home directory is not one of the permitted directories
                for s_ in ('~/x', '~/sub/x', '~', '~/', '~/../outside/x', '~/.lexaloffle/pico-8/carts/game/x'):
                    for lp in LOAD_PATHS:
                        run_require(ctx, U, s_, lp, hostile, form='paren', home=os.path.join(U, 'home'))
                    for cfg in ('plain', 'subdir'):
                        run_include(ctx, U, s_, '.lua', cfg, hostile)
                    ctx.feature('strings_with_tilde')
                # (e) a package in a sub-directory requires a module that only the MAIN file's directory has: the permitted
                # directories of a nested require() are those of the requiring file
                nested_require(ctx, U, hostile)
                nested_escape(ctx, U, hostile)
                scenario_requires(ctx, U, hostile)
                carts_folder_lookup(ctx, U, hostile)
            ctx.feature('links_done')
            return
        if spec['kind'] == 'names':
            for hostile in (False, True):
                for d, sibs in sorted(SPECIAL_DIRS.items()):
                    cfg = 'dir:' + d
                    run_include(ctx, U, 'x', '.lua', cfg, hostile)
                    for sib in sibs:
                        for s_ in ('../%s/x' % sib, '../%s/sub' % sib, os.path.join(U, sib, 'x'), './../%s/x' % sib):
                            run_include(ctx, U, s_, '.lua', cfg, hostile)
                        run_include(ctx, U, '../%s/x' % sib, '.p8', cfg, hostile)
                    ctx.feature('cart_directories_with_special_characters')
                for cfg, strs in (('dir:' + FOREIGN + 'carts-old', ('../carts/x', '../carts/game/x', '../carts.bak/x', 'x')),
                                  ('dir:' + FOREIGN + 'carts.bak', ('../carts/x', '../carts-old/x', 'x')),
                                  ('dir:home/.lexaloffle/pico-8/carts-old', ('../carts/x', '../carts/game/x', '../carts2/game/x', 'x')),
                                  ('carts2', ('../../carts/x', '../../carts/game/x', '../../carts-old/x'))):
                    for s_ in strs:
                        run_include(ctx, U, s_, '.lua', cfg, hostile)
                        run_include(ctx, U, s_, '.p8', cfg, hostile)
                    ctx.feature('carts_folder_lookalikes')
                # a main file inside a project folder of the PICO-8 carts folder: the other projects there are not its directories
                for s_ in ('other/x', 'x', 'other/lib', 'lib', 'game/x', 'Game/x', 'init', 'other/init'):
                    for lp in LOAD_PATHS:
                        run_require(ctx, U, s_, lp, hostile, form='paren', home=os.path.join(U, 'home'),
                                    maindir='home/.lexaloffle/pico-8/carts/game')
                    ctx.feature('main_file_inside_carts_folder_project')
                # the output cart is built in another directory, which holds files of the required names too
                for s_ in ('x', 'lib', 'sub/x', 'init', 'root'):
                    for lp in LOAD_PATHS:
                        run_require(ctx, U, s_, lp, hostile, form='paren', outdir='outside')
                    ctx.feature('output_cart_in_another_directory')
                # a cart in a directory whose name has capitals, a lower-case twin of that directory next to it, a file only the twin has
                only = os.path.join(U, 'root', 'sub', 'only_in_lower_case_twin.lua')
                with open(only, 'wb') as fh:
                    fh.write(b'marker("root/sub/only_in_lower_case_twin.lua")\n')
                try:
                    for s_ in ('only_in_lower_case_twin', 'sub/only_in_lower_case_twin'):
                        run_include(ctx, U, s_, '.lua', 'dir:ROOT/sub' if '/' not in s_ else 'dir:ROOT', hostile)
                finally:
                    os.remove(only)
                ctx.feature('file_only_in_lower_case_twin_directory')
            ctx.feature('names_done')
            return
        if spec['kind'] == 'absolute':
            for target in ('outside/x', 'outside/sub/x', 'rootbar/x', 'x', 'root/../outside/x', 'root/x'):
                ap = os.path.join(U, target)
                for hostile in (False, True):
                    for cfg in ('plain', 'carts', 'carts2'):
                        run_include(ctx, U, ap, '.lua', cfg, hostile)
                    for lp in LOAD_PATHS:
                        run_require(ctx, U, ap, lp, hostile)
                        run_require(ctx, U, ap + '.lua', lp, hostile)
                # the same path (and a relative escape) with blanks around it: a string is what it is, blanks included
                for hostile in (False, True):
                    for sp in (' ' + ap, ap + ' ', '\t' + ap, ' ' + ap + '.lua', ' ../' + target, '../' + target + ' ', ' /' + ap.lstrip('/')):
                        for lp in LOAD_PATHS:
                            run_require(ctx, U, sp, lp, hostile, form='paren')
                        run_include(ctx, U, sp.strip() + ' ', '.lua', 'plain', hostile)
                    ctx.feature('strings_with_blanks_around_a_path')
                # module-style dotted spellings of the same absolute path (".tmp.x.outside.x")
                dotted = ap.replace('/', '.')
                for hostile in (False, True):
                    for lp in LOAD_PATHS:
                        run_require(ctx, U, dotted, lp, hostile)
                        run_require(ctx, U, dotted.lstrip('.'), lp, hostile)
                # a load-path separator inside the string followed by an absolute path
                for pre in ('nope;', 'x;', ';', 'sub/x;', '?;'):
                    for hostile in (False, True):
                        for lp in LOAD_PATHS:
                            run_require(ctx, U, pre + ap, lp, hostile)
                            run_require(ctx, U, pre + ap + '.lua', lp, hostile)
            ctx.feature('absolute_paths_done')
            return
        allS = strings(spec['N'])
        i, k = spec['slice']
        for idx in range(i, len(allS), k):
            s = allS[idx]
            # every string in both modes; configurations rotate deterministically with the index so that the whole
            # (string x configuration) grid is covered across the complete enumeration
            for hostile in (False, True):
                cfgs = ('plain', 'carts', 'carts2')
                run_include(ctx, U, s, '.lua', cfgs[idx % 3], hostile)
                run_include(ctx, U, s, '.lua', cfgs[(idx + 1) % 3], hostile)
                if idx % 4 == 0:
                    run_include(ctx, U, s, '.p8', 'plain', hostile)
                if '?' not in s:
                    run_require(ctx, U, s, LOAD_PATHS[idx % 5], hostile, form='paren' if '"' not in s and '\\' not in s else None)
                    run_require(ctx, U, s, LOAD_PATHS[(idx + 2) % 5], hostile)
                    run_require(ctx, U, s, 'q_lib', hostile, form='paren' if '"' not in s and '\\' not in s else None) if idx % 2 else None
            ctx.feature('strings_enumerated')
        ctx.sample({'include_string': '../rootbar/x.lua', 'require_string': '..', 'universe': sorted(os.listdir(U))})
    finally:
        shutil.rmtree(U, ignore_errors=True)


def replay(case, ctx):
    U = make_universe()
    try:
        if case['kind'] == 'nested_escape':
            nested_escape(ctx, U, case['hostile'])
        elif case['kind'] == 'carts_folder_lookup':
            carts_folder_lookup(ctx, U, case['hostile'])
        elif case['kind'] == 'scenario':
            scenario_requires(ctx, U, case['hostile'])
            return
        if case['kind'] == 'include':
            s = case['string']
            for ext in ('.p8.png', '.p8', '.lua'):
                if s.endswith(ext):
                    run_include(ctx, U, s[:-len(ext)], ext, case['cfg'], case['hostile'])
                    break
        else:
            run_require(ctx, U, case['string'], case['load_path'], case['hostile'], literal=case.get('literal'),
                        home=os.path.join(U, 'home') if case.get('home') else None, maindir=case.get('maindir', 'root'), outdir=case.get('outdir'))
    finally:
        shutil.rmtree(U, ignore_errors=True)


def gates(m, tier):
    f, mon = m['features'], m['monitors']
    missed = []
    N = 3 if tier == 'quick' else 4
    if f.get('strings_enumerated', 0) != len(strings(N)):
        missed.append('strings enumerated %d of %d' % (f.get('strings_enumerated', 0), len(strings(N))))
    for k in ('cart_loaded_from_stream_without_name', 'cart_under_cwd_relative_carts_folder', 'strings_with_tilde', 'nested_require_from_subdirectory', 'main_named_bare', 'main_named_relative', 'cart_named_bare', 'cart_named_relative', 'links_done', 'strings_through_directory_links', 'strings_with_backslash_separators', 'strings_with_undecodable_bytes', 'sequences_done', 'failed_load_before_case', 'failed_build_before_case', 'include_cfg:subdir', 'absolute_paths_done', 'names_done', 'cart_directories_with_special_characters', 'carts_folder_lookalikes', 'main_file_inside_carts_folder_project', 'strings_with_backslash_digit_values', 'strings_with_blanks_around_a_path', 'output_cart_in_another_directory', 'file_only_in_lower_case_twin_directory', 'require_scenario:ancestor_pattern', 'require_scenario:ancestor_pattern_two', 'require_scenario:package_outside_project', 'require_scenario:entry_without_pattern', 'require_scenario:program_assigns_package_path', 'require_scenario:program_extends_package_path', 'require_scenario:dot_slash_entry', 'require_scenario:package_is_a_cart_with_include', 'cart_of_the_carts_folder_named_bare_from_elsewhere', 'escaping_string_inside_a_package', 'hostile', 'real_fs', 'include_cfg:plain', 'include_cfg:carts', 'include_cfg:carts2', 'include_rejected',
              'include_loaded', 'require_rejected', 'require_built') + tuple('load_path:' + l for l in LOAD_PATHS):
        if f.get(k, 0) < 1:
            missed.append('%s never seen' % k)
    if mon.get('legitimate_opens_seen', 0) < mon.get('include_loads', 0) + mon.get('require_builds', 0):
        missed.append('legitimate open missing in some cases')
    if mon.get('open_events_seen', 0) < 1000:
        missed.append('audit hook saw only %d opens' % mon.get('open_events_seen', 0))
    return missed
