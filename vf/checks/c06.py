"""C06 — unchanged code stays unchanged: the default writer echoes the source losslessly.

Monitor: echo = b''.join(Lua.from_lines(src).to_lines()) (default writer) is lexed by the reference lexer
next to the source: same number and kinds of tokens; every non-string token (space, newline, comment
included) and every long string byte-identical; every quoted string equal by reference-decoded value.
Coverage clause: picotool's token list has as many tokens as the reference's, at the same positions, so no
character of the input is dropped or duplicated.  A sample goes through `p8tool writep8` and
`p8tool build --lua cart.p8`, reading the written __lua__ section with the reference .p8 reader.
"""
import os
from .. import ambient
import shutil
import tempfile

from .. import lexcmp, reflex, progen, layout, carts
from .. import refcodec as rc
from . import c07

LEVEL = 'exploration'
RULE = ('generated programs x random layouts (tight/normal/lines/wild, LF and CRLF, with and without final newline) with every literal form enabled; '
        'the string-literal enumerator (every escape form x next-character class, every raw byte, both quotes, long brackets level 0-3 with lower-level '
        'closers inside, comment forms); a sample through the CLI copy paths. Non-trivial: >= 2 significant tokens; distinct by source hash')
ASSUMPTIONS = [
    'only sources the reference lexer accepts are in the domain ("all lexable sources")',
    'a re-spelled quoted string is judged by the bytes the reference lexer decodes from it',
    'the .p8 paths supply a final newline; the comparison accounts for exactly that one byte',
]
EXHAUSTIVE = {'quick': False, 'thorough': False}
PYOPT_KINDS = ('programs',)
CLOCALE_KINDS = ('programs',)
KNOWN_KEYS = {'nul-escape-before-digit', 'hex-escape'}


def plan(tier, seed):
    specs = [{'kind': 'strings'}]
    n = 14 if tier == 'quick' else 56
    for i in range(n):
        specs.append({'kind': 'programs', 'count': 130 if tier == 'quick' else 800, 'cli': i < 2})
    for i in range(2 if tier == 'quick' else 6):
        specs.append({'kind': 'big', 'count': 2, 'cli': i == 0})
    return specs


def compare_echo(ctx, src, echo, case, what='echo'):
    """-> True if echo is a lossless rendering of src."""
    rs = reflex.lex(src)
    re_, err = reflex.try_lex(echo)
    if err is not None:
        ctx.violation('%s of %r... does not lex: %s' % (what, src[:60], err), case)
        return False
    ctx.monitor('echo_token_lists_compared')
    if len(rs) != len(re_):
        i = next((k for k in range(min(len(rs), len(re_))) if rs[k].kind != re_[k].kind or
                  (rs[k].kind != 'string' and rs[k].raw != re_[k].raw)), min(len(rs), len(re_)))
        ctx.violation('%s has %d tokens, source %d; first difference at token %d: %r vs %r' % (
            what, len(re_), len(rs), i, rs[i].raw[:40] if i < len(rs) else None, re_[i].raw[:40] if i < len(re_) else None), case)
        return False
    for i, (a, b) in enumerate(zip(rs, re_)):
        if a.kind != b.kind:
            ctx.violation('%s token %d changed kind %s -> %s (%r -> %r)' % (what, i, a.kind, b.kind, a.raw[:40], b.raw[:40]), case)
            return False
        if a.kind == 'string' and not a.long:
            ctx.monitor('quoted_strings_compared')
            if b.long or a.value != b.value:
                key = None
                ctx.violation('%s re-spells string %r as %r which denotes %r, not %r' % (
                    what, a.raw[:60], b.raw[:60], b.value[:40], a.value[:40]), case, key=key)
                return False
            if a.raw[:1] != b.raw[:1]:
                ctx.feature('quote-kind-changed')
        elif a.raw != b.raw:
            ctx.violation('%s changed %s token %d: %r -> %r' % (what, a.kind, i, a.raw[:60], b.raw[:60]), case)
            return False
    return True


def object_histories(ctx, src, case):
    """The Lua object route (what carts hold): one chunk, line by line, and filled in two steps with the default writer's output
    (or the character count) requested in between; every default-writer output has to render all the code the object holds."""
    from pico8.lua import lua
    lines = src.splitlines(keepends=True)
    mode = ctx.rng.randrange(4) if len(lines) >= 2 else ctx.rng.randrange(2)
    try:
        if mode == 0:
            L = lua.Lua.from_lines([src], version=ambient.VERSION[0])
            ctx.feature('object_one_chunk')
        elif mode == 1:
            L = lua.Lua.from_lines(lines, version=ambient.VERSION[0])
            ctx.feature('object_line_by_line')
        else:
            # cut between two lines where the reference lexer is between tokens (not inside a long string/comment)
            cut = None
            offs = 0
            starts = {t.off for t in reflex.lex(src)}
            for k, ln in enumerate(lines[:-1]):
                offs += len(ln)
                if offs in starts and not ln.endswith(b'\r'):
                    cut = k + 1
                    if ctx.rng.random() < 0.4:
                        break
            if cut is None:
                return True
            try:
                L = lua.Lua.from_lines(lines[:cut], version=ambient.VERSION[0])
            except Exception:
                # the first part alone is not a program (an open block): not this history's subject
                ctx.feature('object_two_steps_first_part_incomplete')
                return True
            if mode == 2:
                b''.join(L.to_lines())
            else:
                L.get_char_count()
            L.update_from_lines(lines[cut:])
            ctx.feature('object_filled_in_two_steps')
        if ctx.monitors.get('object_echoes_compared', 0) % 3 == 1:
            # HISTORY: the object was written with a transforming writer first (a minified copy was exported, the code was measured);
            # what the default writer gives afterwards is still the code the object was loaded with
            wname = ('LuaMinifyTokenWriter', 'LuaFormatterWriter', 'LuaMinifyWriter', 'LuaASTEchoWriter')[ctx.monitors.get('object_echoes_compared', 0) // 3 % 4]
            try:
                b''.join(L.to_lines(writer_cls=getattr(lua, wname)))
                ctx.feature('other_writer_used_before_default_writer:' + wname)
            except Exception:
                ctx.feature('other_writer_failed_before_default_writer')      # (that writer's own properties are checked elsewhere)
        echo = b''.join(L.to_lines())
        echo2 = b''.join(L.to_lines())
    except Exception as e:
        if mode >= 2:
            ctx.feature('object_two_steps_rejected')
            return True
        ctx.violation('Lua.from_lines/to_lines raised %r on a valid program' % (e,), case)
        return False
    ctx.monitor('object_echoes_compared')
    case = dict(case, history=('one chunk', 'line by line', 'two steps, to_lines in between', 'two steps, get_char_count in between')[mode])
    if echo2 != echo:
        ctx.violation('two successive default-writer outputs of one Lua object differ', case)
        return False
    return compare_echo(ctx, src, echo, case, 'Lua object echo (%s)' % case['history'])


def spaced_labels(src, rng):
    """The same source with blanks/tabs inside the colons of its labels (`::name::` -> `:: name ::`)."""
    rt = reflex.lex(src)
    out = []
    for k, t in enumerate(rt):
        out.append(t.raw)
        if t.kind == 'symbol' and t.raw == b'::':
            opening = k + 2 < len(rt) and rt[k + 1].kind == 'name' and rt[k + 2].raw == b'::'
            if opening:
                out.append(rng.choice((b' ', b'  ', b'\t', b'')))
        elif t.kind == 'name' and k >= 1 and rt[k - 1].raw == b'::' and k + 1 < len(rt) and rt[k + 1].raw == b'::':
            out.append(rng.choice((b' ', b'\t ', b'', b' ')))
    return b''.join(out)


def check_source(ctx, src, tag, cli_dir=None):
    from pico8.lua import lua
    rt, err = reflex.try_lex(src)
    if err is not None:
        ctx.feature('out_of_domain:' + tag)
        return
    rtm = lexcmp.merge_labels(rt)
    # `:: name ::` (blanks inside the colons: legal Lua 5.2, lexed by picotool as loose symbols): the token-by-token tiling clause has no
    # common token model for it, the echo clause (nothing dropped, nothing duplicated, byte for byte outside strings) applies as it stands
    bare = any(t.kind == 'symbol' and t.raw == b'::' for t in rtm)
    if bare:
        ctx.feature('sources_with_spaced_labels')
    nsig = sum(1 for t in rt if t.sig)
    ctx.case(src, nontrivial=nsig >= 2)
    ctx.feature('src:' + tag)
    ctx.feature('final_newline' if src.endswith(b'\n') else 'no_final_newline')
    if b'\r\n' in src:
        ctx.feature('crlf')
    case = {'src': src, 'tag': tag}
    try:
        lx = lexcmp.picotool_tokens(src)
        prev = ctx.extra.get('_prev_tokens')
        if prev is not None and ctx.rng.random() < 0.3:
            # a history: an earlier echo is abandoned half-way (or read alternately) and must not leak into this one
            g0 = lua.LuaEchoWriter(tokens=prev, root=None).to_lines()
            mode = ctx.rng.randrange(3)
            if mode == 0:
                next(g0, None)
                ctx.feature('abandoned_generator_before_echo')
                echo = b''.join(lua.LuaEchoWriter(tokens=lx, root=None).to_lines())
            elif mode == 1:
                g1 = lua.LuaEchoWriter(tokens=lx, root=None).to_lines()
                parts = []
                for a in g1:
                    parts.append(a)
                    next(g0, None)
                echo = b''.join(parts)
                ctx.feature('interleaved_generators')
            else:
                next(g0, None)
                del g0
                echo = b''.join(lua.LuaEchoWriter(tokens=lx, root=None).to_lines())
                ctx.feature('abandoned_generator_before_echo')
        else:
            writer = lua.LuaEchoWriter(tokens=lx, root=None)
            echo = b''.join(writer.to_lines())
        ctx.extra['_prev_tokens'] = lx
    except Exception as e:
        ctx.violation('lexing/echoing a lexable source raised %r' % (e,), case)
        return
    # coverage clause
    ctx.monitor('coverage_clause_checked')
    if not bare and len(lx) != len(rtm):
        ctx.violation('token list has %d tokens, the source has %d' % (len(lx), len(rtm)), case)
        return
    for a, b in zip(rtm, lx) if not bare else ():
        if (a.line, a.col) != (b._lineno, b._charno):
            ctx.violation('token %r reported at line %s col %s, is at line %d col %d: the token list does not tile the source' % (
                a.raw[:30], b._lineno, b._charno, a.line, a.col), case)
            return
    if not compare_echo(ctx, src, echo, case):
        return
    if bare:
        return
    if tag in ('program', 'head') or (tag == 'string' and (b'\n' in src.rstrip(b'\n') or b'\r' in src)):
        # (string-enumerator sources that span lines - backslash-newline inside quotes, long brackets over lines - also go through the
        # Lua object fed line by line)
        if tag == 'string':
            ctx.feature('multi_line_literals_through_line_fed_objects')
        if not object_histories(ctx, src, case):
            return
    if cli_dir is not None and b'\r\n' in src and b'\r' not in src.replace(b'\r\n', b''):
        # a .lua file with CRLF line ends (an editor on another platform wrote it): build copies its bytes like any others
        from pico8 import tool
        p3 = os.path.join(cli_dir, 'crlf src.lua')
        with open(p3, 'wb') as fh:
            fh.write(src)
        out3 = os.path.join(cli_dir, 'out3.p8')
        if os.path.exists(out3):
            os.remove(out3)
        try:
            rcode3 = tool.main([ambient.vflag(), 'build', out3, '--lua', p3])
            got3 = rc.read_p8(open(out3, 'rb').read())['code']
        except Exception as e:
            ctx.violation('build --lua file.lua (CRLF line ends) raised %r' % (e,), case)
            return
        ctx.monitor('cli_copies_compared')
        ctx.feature('build_from_crlf_lua_file')
        if rcode3:
            ctx.violation('build --lua file.lua (CRLF line ends) returned %r' % rcode3, case)
            return
        want = src if src.endswith(b'\n') else src + b'\n'
        compare_echo(ctx, want, got3, case, 'build --lua file.lua (CRLF) output')
        return
    if cli_dir is not None and b'\r' not in src:
        # full object path and CLI copy paths (these parse; only complete programs are sent here)
        from pico8 import tool
        from pico8.game import file as p8file
        regions, _ = carts.random_regions(ctx.rng, 'sparse')
        p1 = os.path.join(cli_dir, ambient.BASE[0] + '.p8')
        with open(p1, 'wb') as fh:
            fh.write(rc.write_p8_variant(ctx.rng, regions, src, version=ambient.VERSION[0]))
        want = src if src.endswith(b'\n') else src + b'\n'
        try:
            rcode = tool.main([ambient.vflag(), 'writep8', p1])
            got1 = rc.read_p8(open(os.path.join(cli_dir, ambient.BASE[0] + '_fmt.p8'), 'rb').read())['code']
            out2 = os.path.join(cli_dir, 'out.p8')
            if os.path.exists(out2):
                os.remove(out2)
            rcode2 = tool.main([ambient.vflag(), 'build', out2, '--lua', p1])
            got2 = rc.read_p8(open(out2, 'rb').read())['code']
        except Exception as e:
            ctx.violation('CLI copy path raised %r' % (e,), case)
            return
        ctx.monitor('cli_copies_compared', 2)
        if rcode or rcode2:
            ctx.violation('CLI copy path returned %r/%r' % (rcode, rcode2), case)
            return
        if not (compare_echo(ctx, want, got1, case, 'writep8 output') and compare_echo(ctx, want, got2, case, 'build --lua output')):
            return
        # the same code coming from a plain .lua file (a main program that requires nothing is copied as it is)
        p3 = os.path.join(cli_dir, 'main src.lua')
        with open(p3, 'wb') as fh:
            fh.write(src)
        out3 = os.path.join(cli_dir, 'out3.p8')
        if os.path.exists(out3):
            os.remove(out3)
        try:
            rcode3 = tool.main([ambient.vflag(), 'build', out3, '--lua', p3])
            got3 = rc.read_p8(open(out3, 'rb').read())['code']
        except Exception as e:
            ctx.violation('build --lua file.lua raised %r' % (e,), case)
            return
        ctx.monitor('cli_copies_compared')
        ctx.feature('build_from_lua_file')
        if b'return' in src:
            ctx.feature('build_from_lua_file_with_return')
        if rcode3:
            ctx.violation('build --lua file.lua returned %r' % rcode3, case)
            return
        compare_echo(ctx, want, got3, case, 'build --lua file.lua output')


def run_shard(spec, ctx):
    try:
        _run_shard(spec, ctx)
    finally:
        ctx.extra.pop('_prev_tokens', None)


def _run_shard(spec, ctx):
    rng = ctx.rng
    if spec['kind'] == 'strings':
        for s in c07.gen_strings():
            check_source(ctx, s, 'string')
        # every escape form in the middle of longer literals, both final-newline variants
        for q in (b'"', b"'"):
            for b1 in range(256):
                if b1 in (10, 13):
                    continue
                lit = bytes([b1]) if b1 not in (92, q[0]) else b'\\' + bytes([b1])
                for tail in (b'', b'0', b'9a'):
                    check_source(ctx, b'x=' + q + b'A' + lit + tail + q, 'string')
                check_source(ctx, b'x=' + q + (b'\\%d' % b1) + b'7' + q + b'\n', 'string') if b1 < 26 else None
                check_source(ctx, b'x=' + q + (b'\\%03d' % b1) + b'7' + q + b'\n', 'string')
                check_source(ctx, b'x=' + q + (b'\\x%02x' % b1) + b'7' + q + b'\n', 'string')
        # two literals in one source: what ends the first (an escape, `\z` and the blanks it skips, an escaped quote, a line
        # continuation) must not reach into the second (which begins with blanks, a quote, a backslash, a digit)
        ends = (b'\\z', b'\\z  ', b'\\z \t', b'\\z\n   ', b'x\\z\n', b'\\\\', b'\\"', b"\\'", b'\\0', b'\\14', b'\\x0', b'\\\n', b'a\\z', b'\\n', b'')
        starts = (b'  two', b'\ttwo', b' ', b'\\"x', b'\\\\', b'7', b'\\z  x', b'', b'  ')
        for q1 in (b'"', b"'"):
            for q2 in (b'"', b"'"):
                for e_ in ends:
                    for st_ in starts:
                        if (e_ == b'\\x0' or e_ == b'\\"' and q1 == b"'" and False):
                            continue
                        for between in (b' b=', b'\nb=', b' .. '):
                            src = b'a=' + q1 + b'one' + e_ + q1 + between + q2 + st_ + q2 + b'\n'
                            from .. import reflex as _rx
                            if _rx.try_lex(src)[1] is None:
                                check_source(ctx, src, 'string')
                                ctx.feature('two_literals_in_one_source')
        ctx.sample({'string_source': b'x="A\\0009a"'})
        # every byte that may begin a name as the very first byte of the source, and multi-byte heads that other text encodings use
        # as markers (EF BB BF, FE FF, FF FE): in P8SCII they are ordinary glyph characters
        heads = [bytes([b]) for b in range(128, 256)] + [b'\xef\xbb\xbf', b'\xef\xbb\xbfx', b'\xfe\xff', b'\xff\xfe', b'\xef\xbb', b'\xbb\xbf',
                                                         b'\xef\xbb\xbf\xef\xbb\xbf', b'_', b'x']
        for lab in (b':: top ::\nx=1\ngoto top\n', b'::  a::x=1 goto a', b'do\n\t::\tagain ::\n  f()\n  goto again\nend\n', b'::a ::', b'::\x8e\x8e ::\n',
                    b'if (x) goto done\n:: done  ::\n'):
            check_source(ctx, lab, 'head')
        for h in heads:
            for tail in (b'=1\n', b'()', b'.x=\'s\'\n-- c\n', b'+=2\r\ny=' + h + b'\r\n'):
                check_source(ctx, h + tail, 'head')
                ctx.feature('source_heads')
        return
    cli_dir = tempfile.mkdtemp(prefix='vf-c06-') if spec.get('cli') else None
    if spec['kind'] == 'big':
        # cart-sized sources: hundreds of statements in wild layouts, and one-line data tables of 10-40 kB
        try:
            done = 0
            for i in range(spec['count'] * 4):
                if done >= spec['count']:
                    break
                p = progen.gen_program(rng, {'depth': 2, 'max_stmts': 2, 'top_stmts': (400, 250)[i % 2], 'goto': False,
                                             'exotic_numbers': True, 'exotic_strings': True, 'multiline_strings': False})
                src = layout.render(p, rng, style=('wild', 'normal')[i % 2])
                if src is None:
                    ctx.monitor('generator_rejects')
                    continue
                done += 1
                ctx.feature('big_programs')
                ctx.monitor('big_program_chars', len(src))
                check_source(ctx, src, 'program', cli_dir if i == 0 else None)
                items = [rng.choice((b'%d' % rng.randrange(10 ** 6), b'"%s"' % bytes(rng.choice(b'abc \x8e\x97') for _ in range(rng.randint(0, 9))),
                                     b'0x%x' % rng.randrange(65536), b'k%d' % rng.randrange(999))) for _ in range(rng.choice((1500, 5000)))]
                line = b'd={' + b','.join(items) + b'}' + (b'\n' if i % 2 else b'')
                ctx.feature('long_line_sources')
                check_source(ctx, line, 'program', cli_dir if i == 1 else None)
        finally:
            if cli_dir:
                shutil.rmtree(cli_dir, ignore_errors=True)
        return
    try:
        if cli_dir:
            # lines that end in (or contain) a name with double underscores at both ends: code, not section headers
            for srcd in (b' local init=cls.__init__\n', b'return getmetatable(o).__class__\n', b'x = t.__index -- c\nt={__index=1}\n',
                         b'a.__lua__=1\nb=__gfx__x\n', b'f(__gfx__)\n', b'-- __lua__\ns="__gfx__"\n', b'mt.__call = mt.__index\n'):
                ctx.feature('lines_with_double_underscore_names')
                check_source(ctx, srcd, 'program', cli_dir)
        for i in range(spec['count']):
            p = progen.gen_program(rng, {'depth': rng.choice((1, 2, 2, 3)), 'max_stmts': 4, 'exotic_numbers': True,
                                         'exotic_strings': True})
            src = layout.render(p, rng)
            if src is None:
                ctx.monitor('generator_rejects')
                continue
            for f in p.feats:
                if f.startswith('str:'):
                    ctx.feature(f)
            check_source(ctx, src, 'program', cli_dir if (cli_dir and i % 3 == 0) else None)
            if 'StatLabel' in p.feats:
                check_source(ctx, spaced_labels(src, rng), 'program')
            if i == 0:
                ctx.sample({'program_source': src[:200]})
    finally:
        if cli_dir:
            shutil.rmtree(cli_dir, ignore_errors=True)


def replay(case, ctx):
    check_source(ctx, case['src'], case.get('tag', 'replay'))


def gates(m, tier):
    f, mon = m['features'], m['monitors']
    missed = []
    for k in ('src:string', 'src:program', 'final_newline', 'no_final_newline', 'crlf'):
        if f.get(k, 0) < 50:
            missed.append('%s = %d' % (k, f.get(k, 0)))
    for k in ('str:dq', 'str:sq', 'str:long0', 'str:long1', 'str:long2', 'str:long3', 'str:hex-escape', 'str:nul-escape',
              'str:decimal-escape-then-digit', 'str:long-multiline', 'str:raw-high', 'str:raw-ctrl'):
        if f.get(k, 0) < 3:
            missed.append('%s seen %d times' % (k, f.get(k, 0)))
    if f.get('abandoned_generator_before_echo', 0) < 50 or f.get('interleaved_generators', 0) < 20:
        missed.append('generator histories: abandoned %d, interleaved %d' % (f.get('abandoned_generator_before_echo', 0), f.get('interleaved_generators', 0)))
    if mon.get('quoted_strings_compared', 0) < 2000:
        missed.append('quoted strings compared: %d' % mon.get('quoted_strings_compared', 0))
    if f.get('source_heads', 0) < 500 or f.get('object_filled_in_two_steps', 0) < 40 or mon.get('object_echoes_compared', 0) < 500:
        missed.append('source heads %d, objects filled in two steps %d, object echoes %d' % (
            f.get('source_heads', 0), f.get('object_filled_in_two_steps', 0), mon.get('object_echoes_compared', 0)))
    if f.get('big_programs', 0) < 3 or f.get('long_line_sources', 0) < 3:
        missed.append('cart-sized programs %d, long one-line sources %d' % (f.get('big_programs', 0), f.get('long_line_sources', 0)))
    if f.get('lines_with_double_underscore_names', 0) < 7:
        missed.append('lines with double-underscore names: %d' % f.get('lines_with_double_underscore_names', 0))
    if f.get('build_from_crlf_lua_file', 0) < 5:
        missed.append('build from a .lua file with CRLF line ends: %d' % f.get('build_from_crlf_lua_file', 0))
    if f.get('build_from_lua_file', 0) < 20 or f.get('build_from_lua_file_with_return', 0) < 5:
        missed.append('build from a .lua file: %d (with a return statement: %d)' % (f.get('build_from_lua_file', 0), f.get('build_from_lua_file_with_return', 0)))
    if mon.get('cli_copies_compared', 0) < 20:
        missed.append('CLI copies compared: %d' % mon.get('cli_copies_compared', 0))
    for w in ('LuaMinifyTokenWriter', 'LuaFormatterWriter', 'LuaMinifyWriter', 'LuaASTEchoWriter'):
        if f.get('other_writer_used_before_default_writer:' + w, 0) < 30:
            missed.append('default writer after %s on the same object: %d' % (w, f.get('other_writer_used_before_default_writer:' + w, 0)))
    if f.get('sources_with_spaced_labels', 0) < 100 or f.get('str:z-escape', 0) < 40 or f.get('str:z-escape-over-line-break', 0) < 10:
        missed.append('sources with `:: name ::` labels: %d; literals with \\z: %d (over a line break: %d)' % (
            f.get('sources_with_spaced_labels', 0), f.get('str:z-escape', 0), f.get('str:z-escape-over-line-break', 0)))
    return missed
