"""C20 — #include splices exactly the named file or cart tab at the include line.

Monitor: the harness writes an including .p8 cart and its targets (.lua files, .p8 carts via the reference writer, .p8.png
carts via the reference PNG writer with raw or compressed code) into a temp tree, loads the cart with the real
file.from_file and compares b''.join(game.lua.to_lines()) with a reference splice computed from the bytes the harness
wrote: each include line replaced by the target's lines (.lua: its own lines; cart: its Lua code; NAME:n: the lines strictly
between the n-th and (n+1)-th line beginning `-->8`), every other line unchanged and in place, include lines inside
included files left literal.  A missing target must fail the load.
"""
import os
import shutil
import tempfile

from .. import carts
from .. import refcodec as rc

LEVEL = 'exploration'
RULE = ('carts with 0-5 include lines at first / middle / last / adjacent positions x targets {.lua, .p8, .p8.png (raw and compressed)} in the cart '
        'directory and sub-directories x tab selectors 0..tabs+1 x target code with and without final newline x whitespace variants of the directive '
        '(leading blanks, several blanks, trailing blanks) x nested include lines inside targets x missing targets. Non-trivial: at least one include '
        'line; distinct by hash of (cart code, target contents)')
ASSUMPTIONS = [
    'a spliced line that lacks its line break (last line of a target without final newline) must still be a line of its own: the expected text '
    'supplies the line break unless it is the very last line of the result',
    '.p8.png targets: the reader\'s extra final newline for raw storage is accepted',
    'target code is plain ASCII Lua whose echo is the identity (string re-spelling is C06\'s subject)',
]
EXHAUSTIVE = {'quick': False, 'thorough': False}
PYOPT_KINDS = (None,)
CLOCALE_KINDS = (None,)
KNOWN_KEYS = {'include-no-final-newline'}


def plan(tier, seed):
    n = 12 if tier == 'quick' else 48
    return [{'count': 40 if tier == 'quick' else 250} for _ in range(n)]


def lines_of(code):
    """Split into lines keeping line breaks (LF)."""
    out = code.split(b'\n')
    res = [l + b'\n' for l in out[:-1]]
    if out[-1]:
        res.append(out[-1])
    return res


def tab_lines(lines, n):
    """Lines strictly between the n-th and (n+1)-th line beginning `-->8` (tab 0 starts at the top)."""
    cur = 0
    out = []
    for l in lines:
        if l.startswith(b'-->8'):
            cur += 1
            continue
        if cur == n:
            out.append(l)
    return out


def make_code(rng, tabs=0, final_newline=True, nested=False):
    parts = []
    for t in range(tabs + 1):
        if t:
            parts.append(b'-->8\n')
        body = carts.simple_lua(rng, rng.choice((0, 20, 60, 150)))
        if nested and rng.random() < 0.5:
            # (a directive inside an included cart stays a line of text: glyphs in its name included)
            body += rng.choice((b'#include nested%d.lua\n' % rng.randrange(9), b'#include \x8e\x97%d.lua\n' % rng.randrange(9),
                                b'--[[\n#include \x99\xe3lib.p8\n]]\n'))
        if rng.random() < 0.3:
            # the text `-->8` at the end of a line of code, or after blanks, is a remark: only a line BEGINNING with it divides tabs
            body += rng.choice((b'spr(t,x*8,y*8) -->8x8 pixel tiles\n', b'w=8 -->8\n', b' -->8 indented\n', b'n-=1 --> 8\n', b'\t-->8\n',
                                b's="\\\n-->8"\n' if False else b'x=1--[[ -->8 ]]\n'))
        if rng.random() < 0.3:
            # tokens that span lines: a long string, a block comment (a quoted string continued by backslash-newline may be re-spelled by
            # the writer an included cart's code passes through, C06, so it is left to that check)
            body += rng.choice((b'txt=[[first\n second\n\nfourth]]\n', b'--[==[ note\n over\n lines ]==]\n', b'help=[=[\n]=] x=1\n',
                                b'--[[\n\n]]\n'))
        parts.append(body)
    code = b''.join(parts)
    if not final_newline:
        code = code.rstrip(b'\n')
        if not code:
            code = b'z=0'
    return code


def build_case(rng, root):
    """Writes the tree; -> (cart path, expected candidates (list of bytes), features, description)."""
    feats = set()
    tree = {}
    where = rng.choice(('', 'games', 'a/b', 'CARTS', 'CARTS'))
    if where == 'CARTS':
        # the cart lives in a project folder inside the (fake-HOME) PICO-8 carts folder; targets are still named relative to the cart
        where = 'home/.lexaloffle/pico-8/carts/' + rng.choice(('proj', 'proj/src'))
        feats.add('cart_inside_carts_folder')
    cartdir = os.path.join(root, where)
    os.makedirs(cartdir, exist_ok=True)

    def put(path, data):
        with open(path, 'wb') as fh:
            fh.write(data)
        tree[os.path.relpath(path, root)] = data
    ninc = rng.choice((0, 1, 1, 2, 2, 3, 5))
    nlines = rng.randint(0, 8)
    own = [carts.one_line(rng) for _ in range(nlines)]
    for k in range(nlines):
        # empty and white-space-only lines are lines of the cart like any other (also directly before / after a directive)
        if rng.random() < 0.2:
            own[k] = rng.choice((b'\n', b'\n', b' \n', b'\t\n', b'  \t \n'))
            feats.add('blank_own_lines')
    if nlines and rng.random() < 0.35:
        # lines that mention #include without being a directive (a commented-out include, a string, a trailing remark): ordinary lines
        k = rng.randrange(nlines)
        own[k] = rng.choice((b'--#include devtools.lua\n', b'-- #include devtools.lua\n', b'x=1 -- #include devtools.lua\n',
                             b's="#include devtools.lua"\n', b'--[[#include devtools.lua]]\n', b'//#include devtools.lua\n',
                             b'y=2 #include_me=3\n' if False else b'-- see #include devtools.lua:1\n'))
        feats.add('line_mentioning_include')
        if rng.random() < 0.5:
            put(os.path.join(cartdir, 'devtools.lua'), b'debug_overlay=true\n')
            feats.add('mentioned_file_exists')
    # positions of include lines among own lines
    slots = sorted(rng.choice(range(nlines + 1)) for _ in range(ninc))
    if ninc and rng.random() < 0.3:
        slots[0] = 0
        feats.add('include_first_line')
    if ninc and rng.random() < 0.3:
        slots[-1] = nlines
        feats.add('include_last_line')
    if ninc >= 2 and len(set(slots)) < len(slots):
        feats.add('adjacent_includes')
    cart_lines = []
    made = []
    reuse_stored = {}
    expected = [[]]   # alternatives (for .p8.png raw newline)
    desc = []
    missing = False
    inc_i = 0
    for pos in range(nlines + 1):
        while inc_i < ninc and slots[inc_i] == pos:
            inc_i += 1
            reuse = None
            if made and rng.random() < 0.3:
                reuse = rng.choice(made)     # the same file included again (possibly another tab)
                feats.add('same_target_twice')
            fragment = None
            if reuse:
                kind, name, tabs, fin, code = reuse
                if code.startswith(b'function frag_') or code.startswith(b"it's only text"):
                    fragment = 'function_opened' if code.startswith(b'function') else 'long_string_text'
            else:
                kind = rng.choice(('lua', 'lua', 'p8', 'p8', 'png'))
                # (a directory or a file whose name BEGINS with dots is a name like any other: `..shared/`, `..cfg`, `...x`)
                sub = rng.choice(('', '', 'lib/', 'lib/deep/', '..shared/', 'lib/..x/', '.hidden/'))
                stem = rng.choice(('inc', 'mod_', 'T', 'cart.p8.v', 'tools.lua.x', 'a.p8.png.b', 'lvl[1]_', 'q?x', 'st*r', 'set{a,b}', '..cfg', '...x', '.env'))
                if sub.split('/')[-2:-1] in (['..shared'], ['..x'], ['.hidden']) or stem.startswith('.'):
                    feats.add('name_beginning_with_dots')
                name = '%s%s%d' % (sub, stem, inc_i)
                if stem in ('lvl[1]_', 'q?x', 'st*r', 'set{a,b}'):
                    # characters that mean something to file-name patterns are characters of the name; a file such a pattern would
                    # match lies next to it
                    feats.add('name_with_pattern_characters')
                    twin = {'lvl[1]_': 'lvl1_', 'q?x': 'qzx', 'st*r': 'stair', 'set{a,b}': 'seta'}[stem]
                    for e2 in ('.lua', '.p8'):
                        tp = os.path.join(cartdir, '%s%s%d%s' % (sub, twin, inc_i, e2))
                        os.makedirs(os.path.dirname(tp), exist_ok=True)
                        put(tp, b'matched_by_a_pattern=1\n' if e2 == '.lua' else rc.write_p8(carts.random_regions(rng, 'zero')[0], b'matched_by_a_pattern=1\n', version=8))
                if '.p8' in name or '.lua' in name:
                    feats.add('name_with_embedded_extension')
                tabs = rng.choice((0, 0, 1, 3, 11, 16)) if kind != 'lua' else 0
                fin = rng.random() < 0.6
                code = make_code(rng, tabs, fin, nested=rng.random() < 0.3)
                fragment = None
                if kind == 'lua' and rng.random() < 0.18:
                    # #include is a splice of text: a .lua file need not be a program by itself
                    fragment = rng.choice(('function_opened', 'long_string_text'))
                    if fragment == 'function_opened':
                        code = b'function frag_%d(a)\n local it=a\n' % inc_i + (b' return it' if not fin else b' it+=1\n')
                    else:
                        code = b"it's only text: \"unbalanced\n-- not a comment (\n" + (b'last line' if not fin else b'end of text\n')
                    feats.add('lua_target_that_is_a_fragment:' + fragment)
                elif kind == 'lua' and rng.random() < 0.35:
                    # a .lua file is taken as it is, line by line: bytes above 127 (P8SCII glyphs, or the UTF-8 text of an editor) included
                    code = rng.choice((b'-- cr\xc3\xa9dits \xe2\x9c\x93\n', b'-- \xff\x80\x8e raw glyphs\n', b's="\x97\xc3"\n')) + code
                    feats.add('lua_target_with_high_bytes')
            sel = None
            if kind == 'lua' and rng.random() < 0.2:
                # a selector after a .lua name: the file has no tabs to select from, its own lines are what is spliced
                sel = rng.randint(0, 3)
                feats.add('selector_after_lua_name')
            if kind != 'lua' and rng.random() < 0.6:
                sel = rng.randint(0, tabs + 1) if tabs < 10 or rng.random() < 0.3 else rng.randint(10, tabs + 1)
                feats.add('tab_selector_%s' % ('beyond' if sel > tabs else 'last' if sel == tabs else 'inner'))
                if sel >= 10:
                    feats.add('tab_selector_two_digits')
            ext = {'lua': '.lua', 'p8': '.p8', 'png': '.p8.png'}[kind]
            path = os.path.join(cartdir, name + ext)
            os.makedirs(os.path.dirname(path), exist_ok=True)
            is_missing = rng.random() < 0.06 and not reuse and not fragment
            if is_missing and kind != 'lua' and rng.random() < 0.6:
                # the cart of that name in the OTHER cart format exists: it is another file, the named one is still missing
                other = os.path.join(cartdir, name + ('.p8.png' if kind == 'p8' else '.p8'))
                os.makedirs(os.path.dirname(other), exist_ok=True)
                if kind == 'p8':
                    put(other, rc.write_p8png(carts.random_regions(rng, 'zero')[0], rc.raw_code_area(b'sibling_of_other_format=1\n'), 8))
                else:
                    put(other, rc.write_p8(carts.random_regions(rng, 'zero')[0], b'sibling_of_other_format=1\n', version=8))
                feats.add('missing_target_with_sibling_of_other_format')
            regions, _ = carts.random_regions(rng, 'zero')
            stored = code
            if reuse:
                stored = reuse_stored[name + ext]
            elif not is_missing:
                made.append((kind, name, tabs, fin, code))
                if kind == 'lua':
                    put(path, code)
                elif kind == 'p8' and rng.random() < 0.12:
                    # a cart without code, as PICO-8 saves it (a sprite or sound library): no __lua__ section at all, or an empty one
                    shape = rng.choice(('no_lua_section', 'empty_lua_section'))
                    regions2, _ = carts.random_regions(rng, 'sparse')
                    put(path, rc.write_p8(regions2, b'', version=rng.choice((8, 33, 41)), final_newline=False,
                                          omit=('lua',) if shape == 'no_lua_section' else ()))
                    made[-1] = (kind, name, 0, fin, b'')
                    code = stored = b''
                    tabs = 0
                    feats.add('included_p8_' + shape)
                elif kind == 'p8':
                    if rng.random() < 0.4:
                        # the included cart in another of the file shapes the format allows (sections reordered / short / with a label)
                        put(path, rc.write_p8_variant(rng, regions, code, version=8))
                        feats.add('included_p8_in_variant_shape')
                    else:
                        put(path, rc.write_p8(regions, code, version=8))
                    stored = code if code.endswith(b'\n') else code + b'\n'
                else:
                    if rng.random() < 0.5 and len(code) > 3:
                        area = rc.code_area_from_items(rc.c_greedy(code), len(code))
                        feats.add('png_compressed')
                    else:
                        area = rc.raw_code_area(code)
                        feats.add('png_raw')
                        stored = code + b'\n'    # the reader appends a line break to raw code
                    put(path, rc.write_p8png(regions, area, 8))
                reuse_stored[name + ext] = stored
            else:
                missing = True
                feats.add('missing_target')
            lead = rng.choice((b'', b'', b' ', b'\t', b'  \t'))
            gap = rng.choice((b' ', b' ', b'  ', b'\t'))
            trail = rng.choice((b'', b'', b' ', b'  '))
            spelled = name + ext
            r_sp = rng.random()
            if r_sp < 0.08:
                spelled = './' + spelled
            elif r_sp < 0.16 and name.startswith('lib/'):
                spelled = 'lib/./' + spelled[4:]
            elif r_sp < 0.16 and '/' not in name:
                os.makedirs(os.path.join(cartdir, 'lib'), exist_ok=True)
                spelled = 'lib/../' + spelled
            elif r_sp < 0.2 and name.startswith('lib/deep/'):
                spelled = 'lib/deep/../deep/' + spelled[9:]
            if spelled != name + ext:
                # (other spellings of a name inside the cart's directory)
                feats.add('name_not_in_normal_form')
            selfmt = ':%d'
            if sel is not None and rng.random() < 0.2:
                # the selector is a decimal number: `:01`, `:003`, `:00` are tabs 1, 3 and 0
                selfmt = rng.choice((':%02d', ':%03d', ':0%d'))
                feats.add('tab_selector_with_leading_zeros')
            directive = lead + b'#include' + gap + spelled.encode() + ((selfmt % sel).encode() if sel is not None else b'') + trail + b'\n'
            if lead or trail or gap != b' ':
                feats.add('directive_whitespace_variant')
            in_comment = rng.random() < 0.12 or fragment == 'long_string_text'
            opener = b'--[[ disabled for now\n' if fragment != 'long_string_text' else b'txt_%d=[[\n' % inc_i
            if in_comment:
                # the directive is recognised line-wise, also between the lines of a block comment (or of a long string)
                cart_lines.append(opener)
                for alt in expected:
                    alt.append(opener)
                feats.add('include_inside_block_comment' if fragment != 'long_string_text' else 'include_inside_long_string')
            cart_lines.append(directive)
            tl = lines_of(stored)
            if in_comment:
                tl = list(tl) + [b']]\n']
                # whatever is spliced must not close the comment early or leave it open: use a target without brackets
                if any(b']]' in l or b'[[' in l for l in tl[:-1]):
                    tl = None
            if tl is None:
                # fall back: not inside a comment after all
                cart_lines.pop(-2)
                for alt in expected:
                    alt.pop()
                feats.discard('include_inside_block_comment')
                in_comment = False
                tl = lines_of(stored)
            closing = []
            if in_comment:
                closing = [tl[-1]]
                tl = tl[:-1]
            if sel is not None and kind != 'lua':
                tl = tab_lines(tl, sel)
            for alt in expected:
                alt.extend(tl)
                alt.extend(closing)
            if in_comment:
                cart_lines.append(b']]\n')
            if fragment == 'function_opened' and not is_missing:
                # the cart closes what the included text opened
                cart_lines.append(b'end\n')
                for alt in expected:
                    alt.append(b'end\n')
            feats.add('target_' + kind)
            if sub:
                feats.add('target_in_subdir')
            if not fin:
                feats.add('target_no_final_newline')
            if b'#include' in code:
                feats.add('nested_include_literal')
            desc.append('%s%s%s' % (name + ext, '' if sel is None else ':%d' % sel, ' MISSING' if is_missing else ''))
        if pos < nlines:
            cart_lines.append(own[pos])
            for alt in expected:
                alt.append(own[pos])
    if ninc >= 2:
        feats.add('several_includes')
    code_section = b''.join(cart_lines)
    cart = os.path.join(cartdir, 'main.p8')
    regions, _ = carts.random_regions(rng, 'sparse')
    put(cart, rc.write_p8(regions, code_section, version=8))
    exp_bytes = []
    for alt in expected:
        fixed = []
        for k, l in enumerate(alt):
            if not l.endswith(b'\n') and k < len(alt) - 1:
                l = l + b'\n'
            fixed.append(l)
        exp_bytes.append(b''.join(fixed))
        # byte-level (glued) variant, to recognise the known mechanism
    glued = [b''.join(alt) for alt in expected]
    return cart, exp_bytes, glued, feats, desc, missing, code_section, tree


def run_self_include(ctx, rng, root, k):
    """A cart that splices one of its own editor tabs: the cart itself is a cart file like any other."""
    cartdir = os.path.join(root, 'selfinc%d' % k)
    os.makedirs(cartdir)
    tabs = [carts.simple_lua(rng, 40) for _ in range(3)]
    sel = k % 3
    own = [b'a=1\n', b'#include kit.p8:%d\n' % sel, b'b=2\n']
    if sel == 0:
        # (tab 0 holds the directive itself: inside an included cart it stays a line of text)
        tabs[0] = b''.join(own)
        code = b'-->8\n'.join(tabs)
        stored = lines_of(code)
        expected = [own[0]] + tab_lines(stored, 0) + [own[2], b'-->8\n'] + lines_of(tabs[1]) + [b'-->8\n'] + lines_of(tabs[2])
    else:
        code = b''.join(own) + b'-->8\n' + tabs[1] + b'-->8\n' + tabs[2]
        stored = lines_of(code)
        expected = [own[0]] + tab_lines(stored, sel) + [own[2], b'-->8\n'] + lines_of(tabs[1]) + [b'-->8\n'] + lines_of(tabs[2])
    cart = os.path.join(cartdir, 'kit.p8')
    data = rc.write_p8(carts.random_regions(rng, 'sparse')[0], code, version=8)
    with open(cart, 'wb') as fh:
        fh.write(data)
    case = {'cart': os.path.relpath(cart, root), 'targets': ['kit.p8:%d (the cart itself)' % sel], 'tree': {os.path.relpath(cart, root): data},
            'expected': [b''.join(expected)], 'glued': [], 'missing': False, 'via_symlink': False, 'open_as': 'absolute'}
    ctx.case((code, 'self', sel), nontrivial=True)
    ctx.feature('cart_includes_its_own_tab')
    judge(ctx, cart, case)


def run_case(ctx, rng, root):
    cart, exp, glued, feats, desc, missing, code_section, tree = build_case(rng, root)
    case = {'cart': os.path.relpath(cart, root), 'targets': desc, 'tree': tree, 'expected': exp, 'glued': glued, 'missing': missing,
            'via_symlink': 'cart_inside_carts_folder' not in feats and rng.random() < 0.15}
    if case['via_symlink']:
        feats.add('cart_opened_through_symlinked_directory')
    else:
        case['open_as'] = rng.choice(('absolute', 'absolute', 'bare_name_in_cwd', 'dot_slash_in_cwd', 'relative_from_parent'))
        feats.add('cart_opened_as_' + case['open_as'])
    ctx.case((code_section, tuple(desc), tuple(exp)), nontrivial=bool(desc))
    for f in feats:
        ctx.feature(f)
    ctx.feature('includes_%d' % min(len(desc), 3))
    judge(ctx, cart, case)


def judge(ctx, cart, case):
    from pico8.game import file as p8file
    exp, glued, desc, missing = case['expected'], case['glued'], case['targets'], case['missing']
    root_dir = cart[:cart.index(case['cart'])] if case['cart'] in cart else os.path.dirname(cart)
    if case.get('via_symlink'):
        link = os.path.join(root_dir, 'linked_workdir')
        if not os.path.lexists(link):
            os.symlink(os.path.dirname(cart), link)
        cart = os.path.join(link, os.path.basename(cart))
    old_home = os.environ.get('HOME')
    os.environ['HOME'] = os.path.join(root_dir, 'home')
    old_cwd = os.getcwd()
    open_as = case.get('open_as', 'absolute')
    if open_as == 'bare_name_in_cwd':
        os.chdir(os.path.dirname(cart))
        cart = os.path.basename(cart)
    elif open_as == 'dot_slash_in_cwd':
        os.chdir(os.path.dirname(cart))
        cart = './' + os.path.basename(cart)
    elif open_as == 'relative_from_parent':
        parent = os.path.dirname(os.path.dirname(cart))
        os.chdir(parent)
        cart = os.path.relpath(cart, parent)
    try:
        try:
            g = p8file.from_file(cart)
            got = b''.join(g.lua.to_lines())
            err = None
        except Exception as e:
            err = e
    finally:
        os.chdir(old_cwd)
        if old_home is None:
            os.environ.pop('HOME', None)
        else:
            os.environ['HOME'] = old_home
    ctx.monitor('carts_loaded')
    if missing:
        ctx.monitor('missing_target_cases')
        if err is None:
            ctx.violation('a missing include target did not fail the load (%s)' % desc, case)
        return
    if err is not None:
        ctx.violation('load failed: %r (targets %s)' % (err, desc), case)
        return
    ctx.monitor('splices_compared')
    ok = got in exp or (got.endswith(b'\n') and got[:-1] in exp) or got + b'\n' in exp
    if not ok:
        key = 'include-no-final-newline' if (got in glued or got + b'\n' in glued or got[:-1] in glued) and got not in exp else None
        e = exp[0]
        d = next((i for i in range(min(len(got), len(e))) if got[i] != e[i]), min(len(got), len(e)))
        ctx.violation('spliced code differs from the reference splice at byte %d: got %r, expected %r (targets %s)' % (
            d, got[max(0, d - 25):d + 25], e[max(0, d - 25):d + 25], desc), case, key=key)


def run_shard(spec, ctx):
    rng = ctx.rng
    for i in range(spec['count']):
        root = tempfile.mkdtemp(prefix='vf-c20-')
        try:
            run_case(ctx, rng, root)
            if i % 12 == 5:
                run_self_include(ctx, rng, root, i // 12)
        finally:
            shutil.rmtree(root, ignore_errors=True)
    ctx.sample({'cart_code': b'x=1\n#include lib/inc1.p8:2\ny=2\n', 'note': 'shape of a generated including cart'})


def replay(case, ctx):
    root = tempfile.mkdtemp(prefix='vf-c20-')
    try:
        for rel, data in case['tree'].items():
            path = os.path.join(root, rel)
            os.makedirs(os.path.dirname(path), exist_ok=True)
            with open(path, 'wb') as fh:
                fh.write(data)
        ctx.case(case['cart'])
        judge(ctx, os.path.join(root, case['cart']), case)
    finally:
        shutil.rmtree(root, ignore_errors=True)


def gates(m, tier):
    f, mon = m['features'], m['monitors']
    missed = []
    for k in ('target_lua', 'target_p8', 'target_png', 'target_in_subdir', 'target_no_final_newline', 'tab_selector_inner', 'tab_selector_last',
              'tab_selector_beyond', 'include_first_line', 'include_last_line', 'adjacent_includes', 'several_includes', 'nested_include_literal',
              'directive_whitespace_variant', 'missing_target', 'png_raw', 'png_compressed', 'includes_0', 'same_target_twice', 'cart_inside_carts_folder', 'name_with_embedded_extension', 'include_inside_block_comment',
              'cart_opened_through_symlinked_directory', 'lua_target_with_high_bytes', 'tab_selector_two_digits', 'cart_opened_as_bare_name_in_cwd',
              'cart_opened_as_dot_slash_in_cwd', 'cart_opened_as_relative_from_parent', 'line_mentioning_include', 'mentioned_file_exists', 'blank_own_lines', 'selector_after_lua_name', 'included_p8_no_lua_section', 'included_p8_empty_lua_section', 'included_p8_in_variant_shape', 'missing_target_with_sibling_of_other_format',
              'name_not_in_normal_form', 'name_with_pattern_characters', 'name_beginning_with_dots', 'tab_selector_with_leading_zeros', 'cart_includes_its_own_tab', 'lua_target_that_is_a_fragment:function_opened', 'lua_target_that_is_a_fragment:long_string_text'):
        if f.get(k, 0) < 5:
            missed.append('%s seen %d times' % (k, f.get(k, 0)))
    if mon.get('splices_compared', 0) < 200:
        missed.append('splices compared: %d' % mon.get('splices_compared', 0))
    return missed
