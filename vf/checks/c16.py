"""C16 — on-disk encodings match the PICO-8 cart formats, not merely each other.

Differential monitor against independent reference encoders/decoders (vf.refcodec, written from the
format descriptions, never importing pico8):
   picotool writer  == reference encoder   (section text byte-equal; PNG low bits / memory layout)
   reference encoder -> picotool reader == memory bytes
so a writer and reader in picotool that share a mistake are still caught.  Plus the PICO-8-written
.p8 / .p8.png pairs in tests/testdata, which must load to identical contents and agree with the
reference readers.
"""
import glob
import io
import os

from .. import carts
from .. import refcodec as rc

LEVEL = 'exploration'
RULE = ('exhaustive sub-spaces: all 65,536 sfx note words (32 carts x 2048 notes), all 256 byte values at each of the 64 columns of a gfx row '
        '(2 sheets), all 8 music flag values x 4 channels x 128 channel values (64 carts), all 256 values in gff, all 256 values through the '
        'steganographic split; sampled: random whole regions through the whole-file writers/readers both ways, labels, random PNG label pixels and '
        'filters; PICO-8-written testdata pairs. A case is one (section or file, direction) comparison; non-trivial if the region is not all zero; '
        'distinct by hash of the bytes compared')
ASSUMPTIONS = [
    'the reference codecs are my reading of the PICO-8 .p8/.p8.png format; they are validated in-run against the PICO-8-written carts in tests/testdata',
    'the .p8 music line has no place for bit 7 of the 4th channel byte: the writer must drop it and the reader must produce 0 there',
]
EXHAUSTIVE = {'quick': True, 'thorough': True}
PYOPT_KINDS = ('whole_p8',)
CLOCALE_KINDS = ('whole_p8',)


def plan(tier, seed):
    specs = []
    for i in range(4):
        specs.append({'kind': 'sfx_words', 'carts': list(range(i * 8, (i + 1) * 8))})
    specs.append({'kind': 'gfx_cols'})
    for i in range(4):
        specs.append({'kind': 'music', 'flags': [i * 2, i * 2 + 1]})
    specs.append({'kind': 'gff_map', 'count': 20 if tier == 'quick' else 200})
    specs.append({'kind': 'testdata'})
    n = 5 if tier == 'quick' else 24
    for i in range(n):
        specs.append({'kind': 'whole_p8', 'count': 12 if tier == 'quick' else 60})
    for i in range(n):
        specs.append({'kind': 'png', 'count': 8 if tier == 'quick' else 40, 'first': i == 0})
    for i in range(2 if tier == 'quick' else 8):
        specs.append({'kind': 'resave', 'count': 15 if tier == 'quick' else 80})
    specs.append({'kind': 'omitted', 'count': 40 if tier == 'quick' else 200})
    return specs


def _lines(rows):
    return [(r + '\n').encode('ascii') for r in rows]


def cmp_writer(ctx, name, section, ref_rows, data):
    """picotool section writer vs reference rows."""
    got = list(section.to_lines())
    want = _lines(ref_rows)
    ctx.case((name, 'w', data), nontrivial=any(data))
    ctx.monitor('writer_comparisons')
    if got != want:
        i = next((k for k in range(min(len(got), len(want))) if got[k] != want[k]), min(len(got), len(want)))
        g = got[i] if i < len(got) else None
        w = want[i] if i < len(want) else None
        col = None
        if g is not None and w is not None:
            col = next((k for k in range(min(len(g), len(w))) if g[k] != w[k]), None)
        ctx.violation('%s writer: line %d differs from the format (col %s): wrote %r, format prescribes %r' % (
            name, i, col, (g or b'')[:48] if col is None else g[max(0, col - 8):col + 12],
            (w or b'')[:48] if col is None else w[max(0, col - 8):col + 12]),
            {'kind': 'section', 'name': name, 'data': data})
        return False
    return True


def cmp_reader(ctx, name, cls, ref_rows, data, expect=None, **kw):
    """reference rows -> picotool section reader vs memory bytes."""
    expect = data if expect is None else expect
    ctx.case((name, 'r', data), nontrivial=any(data))
    ctx.monitor('reader_comparisons')
    try:
        sec = cls.from_lines(_lines(ref_rows), version=8, **kw)
        got = bytes(sec.to_bytes())
    except Exception as e:
        ctx.violation('%s reader raised %r on format-conforming text' % (name, e),
                      {'kind': 'section', 'name': name, 'data': data})
        return False
    if got != expect:
        d = next((k for k in range(min(len(got), len(expect))) if got[k] != expect[k]), min(len(got), len(expect)))
        ctx.violation('%s reader: byte 0x%x is %s, the text encodes %02x (lengths %d/%d)' % (
            name, d, '%02x' % got[d] if d < len(got) else 'missing', expect[d] if d < len(expect) else -1,
            len(got), len(expect)), {'kind': 'section', 'name': name, 'data': data})
        return False
    return True


def section_pair(ctx, name, data):
    from pico8.gfx.gfx import Gfx
    from pico8.gff.gff import Gff
    from pico8.map.map import Map
    from pico8.sfx.sfx import Sfx
    from pico8.music.music import Music
    if name == 'gfx':
        rows = rc.gfx_rows(data)
        cmp_writer(ctx, name, Gfx.from_bytes(data, version=8), rows, data)
        cmp_reader(ctx, name, Gfx, rows, data)
    elif name == 'gff':
        rows = [data[i:i + 128].hex() for i in range(0, 256, 128)]
        cmp_writer(ctx, name, Gff.from_bytes(data, version=8), rows, data)
        cmp_reader(ctx, name, Gff, rows, data)
    elif name == 'map':
        rows = [data[i:i + 128].hex() for i in range(0, 4096, 128)]
        cmp_writer(ctx, name, Map.from_bytes(data, version=8), rows, data)
        cmp_reader(ctx, name, Map, rows, data)
    elif name == 'sfx':
        rows = rc.sfx_rows(data)
        cmp_writer(ctx, name, Sfx.from_bytes(data, version=8), rows, data)
        cmp_reader(ctx, name, Sfx, rows, data)
    elif name == 'music':
        rows = rc.music_rows(data)
        cmp_writer(ctx, name, Music.from_bytes(data, version=8), rows, data)
        cmp_reader(ctx, name, Music, rows, data, expect=rc.music_mask(data))


def check_testdata(ctx):
    from pico8.game import file as p8file
    repo = os.environ.get('VF_REPO', '/repo')
    pairs = 0
    for png in sorted(glob.glob(os.path.join(repo, 'tests', 'testdata', '*.p8.png'))):
        base = png[:-len('.p8.png')]
        data = open(png, 'rb').read()
        try:
            ref = rc.read_p8png(data)
            g = p8file.from_file(png)
        except Exception as e:
            ctx.violation('testdata %s unreadable: %r' % (os.path.basename(png), e), {'kind': 'testdata'})
            continue
        ctx.case(data)
        ctx.monitor('testdata_png_vs_reference')
        regs = carts.game_regions(g)
        for name, _ in rc.REGIONS:
            if regs[name] != ref[name]:
                ctx.violation('testdata %s: picotool and reference reader disagree on %s' % (os.path.basename(png), name),
                              {'kind': 'testdata'})
        if g.version != ref['version']:
            ctx.violation('testdata %s: version %r vs reference %r' % (os.path.basename(png), g.version, ref['version']),
                          {'kind': 'testdata'})
        code = b''.join(g.lua.to_lines())
        refcode = rc.decode_code_area(ref['code_area'], ref['version']).replace(b'\r', b' ')
        if code.rstrip(b'\n') != refcode.rstrip(b'\n'):
            ctx.violation('testdata %s: code differs from the reference decode' % os.path.basename(png), {'kind': 'testdata'})
        p8 = base + '.p8'
        if not os.path.exists(p8):
            continue
        pairs += 1
        d8 = open(p8, 'rb').read()
        ctx.case(d8)
        g8 = p8file.from_file(p8)
        r8 = rc.read_p8(d8)
        ctx.monitor('testdata_pairs_compared')
        regs8 = carts.game_regions(g8)
        for name, _ in rc.REGIONS:
            a, b = regs8[name], regs[name]
            if name == 'music':
                a, b = rc.music_mask(a), rc.music_mask(b)
            if a != b:
                d = next((k for k in range(min(len(a), len(b))) if a[k] != b[k]), -1)
                ctx.violation('testdata pair %s: region %s differs between .p8 and .p8.png at 0x%x' % (
                    os.path.basename(base), name, d), {'kind': 'testdata'})
            want = r8[name]
            if want is not None and len(want) == len(regs8[name]) and want != regs8[name]:
                ctx.violation('testdata %s.p8: picotool and reference reader disagree on %s' % (os.path.basename(base), name),
                              {'kind': 'testdata'})
        c8 = b''.join(g8.lua.to_lines())
        if c8.rstrip(b'\n') != code.rstrip(b'\n'):
            ctx.violation('testdata pair %s: code differs between .p8 and .p8.png' % os.path.basename(base), {'kind': 'testdata'})
    ctx.feature('testdata_pairs', pairs)


def run_shard(spec, ctx):
    rng = ctx.rng
    kind = spec['kind']
    if kind == 'sfx_words':
        for k in spec['carts']:
            data = bytearray()
            w = k * 2048
            for s in range(64):
                for n in range(32):
                    data += bytes((w & 255, w >> 8))
                    w += 1
                data += carts.random_bytes(rng, 4)
            section_pair(ctx, 'sfx', bytes(data))
            ctx.feature('sfx_note_words_covered', 2048)
        ctx.sample({'sfx_row': rc.sfx_rows(bytes(data))[0]})
    elif kind == 'gfx_cols':
        for h in range(2):
            data = bytes((h * 128 + r) & 255 for r in range(128) for c in range(64))
            section_pair(ctx, 'gfx', data)
            ctx.feature('gfx_value_column_pairs', 128 * 64)
        for _ in range(6):
            section_pair(ctx, 'gfx', carts.random_bytes(rng, 8192))
        ctx.sample({'gfx_row': rc.gfx_rows(data)[5][:32]})
    elif kind == 'music':
        for f in spec['flags']:
            for ch in range(4):
                for half in range(2):
                    data = bytearray()
                    for i in range(64):
                        v = half * 64 + i
                        c = [rng.randrange(128) for _ in range(4)]
                        c[ch] = v
                        for b in range(3):
                            c[b] |= ((f >> b) & 1) << 7
                        if rng.random() < 0.5:
                            c[3] |= 0x80   # the bit with no place in the text format
                        data += bytes(c)
                    section_pair(ctx, 'music', bytes(data))
                    ctx.feature('music_flag_channel_value', 64)
        ctx.sample({'music_row': rc.music_rows(bytes(data))[0]})
    elif kind == 'gff_map':
        section_pair(ctx, 'gff', bytes(range(256)))
        ctx.feature('gff_all_values')
        for _ in range(spec['count']):
            section_pair(ctx, 'gff', carts.random_bytes(rng, 256))
            section_pair(ctx, 'map', carts.random_bytes(rng, 4096))
        section_pair(ctx, 'map', bytes(range(256)) * 16)
        for _ in range(spec['count']):
            d = carts.defaultish_regions(rng)
            section_pair(ctx, 'sfx', d['sfx'])
            section_pair(ctx, 'music', d['music'])
            ctx.feature('defaultish_sections')
        # the "unused pattern" header at every pattern index, and PICO-8's other default (pattern 0: duration 1)
        for hdr in ((0, 16, 0, 0), (0, 1, 0, 0)):
            section_pair(ctx, 'sfx', (bytes(64) + bytes(hdr)) * 64)
    elif kind == 'testdata':
        check_testdata(ctx)
    elif kind == 'whole_p8':
        from pico8.game.formatter.p8 import P8Formatter
        for i in range(spec['count']):
            regions, mode = carts.random_regions(rng)
            label = carts.random_bytes(rng, 8192) if rng.random() < 0.5 else None
            if i % 6 == 5:
                label = bytes(8192)        # an all-black label is still a label section
                ctx.feature('p8_black_label')
            code = carts.simple_lua(rng, rng.choice((0, 50, 500)), glyphs=True)
            version = rng.choice((0, 8, 33, rng.randrange(1000)))
            case = {'kind': 'whole_p8', 'regions': regions, 'label': label, 'code': code, 'version': version}
            ctx.case((rc.join_memory(regions), label, code), nontrivial=True)
            ctx.feature('p8_label' if label is not None else 'p8_nolabel')
            # picotool writer -> reference reader
            g = carts.make_game(regions, code=code, version=version, label=label)
            buf = io.BytesIO()
            try:
                P8Formatter.to_file(g, buf)
                ref = rc.read_p8(buf.getvalue())
            except Exception as e:
                ctx.violation('whole .p8 writer/reference reader: %r' % (e,), case)
                continue
            ctx.monitor('p8_files_written_and_reference_read')
            bad = False
            for name, _ in rc.REGIONS:
                want = regions[name] if name != 'music' else rc.music_mask(regions[name])
                if ref[name] != want:
                    ctx.violation('.p8 writer: reference reader sees a different %s section' % name, case)
                    bad = True
                    break
            if bad:
                continue
            if ref['label'] != label:
                ctx.violation('.p8 writer: label section %s' % ('missing' if ref['label'] is None else 'differs'), case)
                continue
            if ref['version'] != version:
                ctx.violation('.p8 writer: version line says %r' % ref['version'], case)
                continue
            wantcode = code if code.endswith(b'\n') else code + b'\n'
            if ref['code'] != wantcode:
                ctx.violation('.p8 writer: reference reader sees different code', case)
                continue
            # reference writer -> picotool reader
            # (every third file carries the `__meta:title__` section current PICO-8 appends for the title shown in splore)
            meta = (b'title', ([b'my game', b'by me'], [b'jelpi'], [b'a b c'], [b'00 41424344'], [])[i % 5]) if i % 3 == 1 else None
            if meta is not None:
                ctx.feature('file_with_meta_title_section')
            data = rc.write_p8(regions, code, version=version, label=label, meta=meta)
            try:
                g2 = P8Formatter.from_file(io.BytesIO(data))
            except Exception as e:
                ctx.violation('.p8 reader raised %r on a format-conforming file' % (e,), case)
                continue
            ctx.monitor('p8_files_reference_written_and_read')
            if i % 3 == 0:
                # the same file with CRLF line ends: it must be rejected, or read to the same bytes
                try:
                    gc = P8Formatter.from_file(io.BytesIO(data.replace(b'\n', b'\r\n')))
                    ctx.feature('crlf_file_accepted')
                    rcr = carts.game_regions(gc)
                    for name, _ in rc.REGIONS:
                        want = regions[name] if name != 'music' else rc.music_mask(regions[name])
                        if rcr[name] != want:
                            ctx.violation('.p8 reader accepts a CRLF file but reads %s as %d bytes that differ from what the text encodes' % (
                                name, len(rcr[name])), case)
                            break
                except Exception:
                    ctx.feature('crlf_file_rejected')
            r2 = carts.game_regions(g2)
            for name, _ in rc.REGIONS:
                want = regions[name] if name != 'music' else rc.music_mask(regions[name])
                if r2[name] != want:
                    ctx.violation('.p8 reader: %s differs from the bytes the text encodes' % name, case)
                    break
            else:
                lab = bytes(g2.label.to_bytes()) if g2.label is not None else None
                if lab != label:
                    ctx.violation('.p8 reader: label differs', case)
                elif g2.version != version:
                    ctx.violation('.p8 reader: version %r' % g2.version, case)
                elif b''.join(g2.lua.to_lines()) != wantcode:
                    ctx.violation('.p8 reader: code differs', case)
    elif kind == 'omitted':
        run_omitted(ctx, rng, spec)
    elif kind == 'resave':
        # history: ONE Game object is saved several times, in both formats, with accessor edits in between; every file must
        # encode the cart memory as it is at that moment
        from pico8.game.formatter.p8 import P8Formatter
        from pico8.game.formatter.p8png import P8PNGFormatter
        from ..memmodel import Shadow
        for i in range(spec['count']):
            regions, mode = carts.random_regions(rng)
            regions['music'] = rc.music_mask(regions['music'])
            code = carts.varied_lua(rng, rng.choice((0, 40, 400)))
            g = carts.make_game(regions, code=code, version=rng.randint(1, 255))
            sh = Shadow(rc.join_memory(regions))
            steps = []
            for step in range(rng.randint(2, 6)):
                fmt = rng.choice(('p8', 'png'))
                steps.append(fmt)
                case = {'kind': 'resave', 'steps': list(steps)}
                ctx.case((rc.join_memory(regions), tuple(steps), step))
                buf = io.BytesIO()
                try:
                    (P8Formatter if fmt == 'p8' else P8PNGFormatter).to_file(g, buf)
                    ref = rc.read_p8(buf.getvalue()) if fmt == 'p8' else rc.read_p8png(buf.getvalue())
                except Exception as e:
                    ctx.violation('save #%d (%s) of the same Game failed: %r' % (step + 1, fmt, e), case)
                    break
                ctx.monitor('resaves_compared')
                bad = [n for n, _ in rc.REGIONS if ref[n] != (sh.region(n) if n != 'music' else rc.music_mask(sh.region(n)))]
                if bad:
                    ctx.violation('save #%d (%s after %s): sections %s do not encode the cart memory (lengths %s)' % (
                        step + 1, fmt, steps[:-1], bad, [len(ref[n]) if ref[n] is not None else None for n in bad]), case)
                    break
                # edits between saves
                x, y, v = rng.randrange(128), rng.randrange(64), rng.randrange(256)
                g.map.set_cell(x, y, v)
                sh.set_cell(x, y, v)
                sid, dur = rng.randrange(64), rng.randrange(256)
                g.sfx.set_properties(sid, note_duration=dur)
                sh.set_sfx_properties(sid, note_duration=dur)
                fid, fl = rng.randrange(256), rng.randrange(256)
                g.gff.reset_flags(fid, fl)
                sh.reset_flags(fid, fl)
            ctx.feature('resave_histories')
    elif kind == 'png':
        from pico8.game.formatter.p8png import P8PNGFormatter
        import tempfile
        for i in range(spec['count']):
            regions, mode = carts.random_regions(rng)
            if spec.get('first') and i == 0:
                regions = dict(regions)
                regions['gfx'] = bytes(range(256)) * 32   # all 256 values through the channel split
                ctx.feature('stego_all_values')
            version = rng.randint(1, 255)
            code = carts.varied_lua(rng, rng.choice((0, 30, 800)))
            case = {'kind': 'png', 'regions': regions, 'code': code, 'version': version}
            ctx.case((rc.join_memory(regions), code, version, 'png'))
            rows = [bytearray(carts.random_bytes(rng, rc.CART_W * 4)) for _ in range(rc.CART_H)]
            # reference writer -> picotool reader
            area = rc.raw_code_area(code) if rng.random() < 0.5 else rc.code_area_from_items(rc.c_greedy(code), len(code))
            png = rc.write_p8png(regions, area, version, base_rows=rows,
                                 filters=[rng.randrange(5) for _ in range(rc.CART_H)])
            try:
                g2 = P8PNGFormatter.from_file(io.BytesIO(png))
            except Exception as e:
                ctx.violation('.p8.png reader raised %r on a format-conforming file' % (e,), case)
                continue
            ctx.monitor('png_files_reference_written_and_read')
            r2 = carts.game_regions(g2)
            bad = [n for n, _ in rc.REGIONS if r2[n] != regions[n]]
            if bad:
                ctx.violation('.p8.png reader: regions %s differ from the bytes the pixels encode' % bad, case)
                continue
            if g2.version != version:
                ctx.violation('.p8.png reader: version %r, pixels encode %d' % (g2.version, version), case)
                continue
            got = b''.join(g2.lua.to_lines())
            if got.rstrip(b'\n') != code.rstrip(b'\n'):
                ctx.violation('.p8.png reader: code differs from what the pixels encode', case)
                continue
            # picotool writer -> reference reader, with this random picture as label source
            with tempfile.NamedTemporaryFile(suffix='.png') as lf:
                lf.write(rc.png_encode(rc.CART_W, rc.CART_H, rows))
                lf.flush()
                buf = io.BytesIO()
                try:
                    P8PNGFormatter.to_file(carts.make_game(regions, code=code, version=version), buf, label_fname=lf.name)
                    ref = rc.read_p8png(buf.getvalue())
                except Exception as e:
                    ctx.violation('.p8.png writer/reference reader: %r' % (e,), case)
                    continue
            ctx.monitor('png_files_written_and_reference_read')
            bad = [n for n, _ in rc.REGIONS if ref[n] != regions[n]]
            if bad:
                ctx.violation('.p8.png writer: reference unpacker sees different %s' % bad, case)
            elif ref['version'] != version:
                ctx.violation('.p8.png writer: byte 0x8000 is %d' % ref['version'], case)
            elif rc.decode_code_area(ref['code_area'], version) != code:
                ctx.violation('.p8.png writer: code area does not decode to the code', case)
            elif rc.upper_bits(ref['rows']) != rc.upper_bits(rows):
                ctx.violation('.p8.png writer: upper six bits of the picture changed', case)


def run_omitted(ctx, rng, spec):
    """.p8 files that leave out data sections (current PICO-8 does not write a section that is entirely default).  A section that
    is not in the file reads as the default region of its full size (gfx/gff/map all zero; sfx/music as an empty cart has them);
    carts loaded one after the other do not share it; written back, every section has its full size again and the .p8.png
    memory layout is the usual one."""
    from pico8.game.formatter.p8 import P8Formatter
    from pico8.game.formatter.p8png import P8PNGFormatter
    from pico8.game.game import Game
    SIZES = rc.REGION_SIZES
    empty = carts.game_regions(Game.make_empty_game())
    for name in ('gfx', 'gff', 'map'):
        if any(empty[name]):
            ctx.violation('empty default %s is not all zero' % name, {'kind': 'omitted'})
            return
    names = [n for n, _ in rc.REGIONS]
    prev = None
    for i in range(spec['count']):
        regions, mode = carts.random_regions(rng)
        regions['music'] = rc.music_mask(regions['music'])
        # which sections are left out / written short rotates with the case index, so every section gets both treatments
        omit = tuple(n for k, n in enumerate(names) if (i + k) % 3 == 0)
        if i % 7 == 6:
            omit = tuple(names)
        code = carts.simple_lua(rng, rng.choice((0, 40, 300)))
        version = rng.choice((8, 33, 41))
        # sections current PICO-8 writes short: only the rows up to the last one that holds anything but default contents
        trim = tuple(n for k, n in enumerate(names) if n not in omit and (i + k) % 3 == 1)
        rowbytes = {'gfx': 64, 'gff': 128, 'map': 128, 'music': 4, 'sfx': 68}
        regions = dict(regions)
        for n in trim:
            nrows = SIZES[n] // rowbytes[n]
            keep = rng.choice((0, 1, nrows // 2, nrows - 1, rng.randrange(nrows + 1))) * rowbytes[n]
            if n == 'sfx':
                keep = max(keep, 68)      # pattern 0 has its own default (speed 1) in an empty cart; keep it written
            regions[n] = bytes(regions[n][:keep]) + bytes(empty[n][keep:])
            ctx.feature('trimmed_' + n)
        # the order of the sections in the file is not prescribed: PICO-8's own order, and permutations of it
        order = None
        if i % 2:
            order = ['lua', 'gfx', 'label', 'gff', 'map', 'sfx', 'music']
            rng.shuffle(order)
            ctx.feature('sections_in_another_order')
            if order.index('map') < order.index('gfx'):
                ctx.feature('map_section_before_gfx_section')
            if order[-1] == 'lua':
                ctx.feature('lua_section_last')
        meta = (b'title', ([b'my game', b'by me'], [b'x=1'], [b'two words'])[i % 3]) if i % 4 == 2 else None
        meta_after = None
        if meta is not None:
            present = [n for n in (order or ['lua', 'gfx', 'gff', 'map', 'sfx', 'music']) if n not in omit and n != 'label']
            meta_after = (None, present[i % len(present)])[(i // 4) % 2]
            ctx.feature('file_with_meta_title_section')
            if meta_after:
                ctx.feature('meta_section_not_last')
        data = rc.write_p8(regions, code, version=version, omit=omit, trim=trim, order=order,
                           label=carts.random_bytes(rng, 8192) if i % 3 == 0 else None, meta=meta, meta_after=meta_after)
        case = {'kind': 'omitted', 'regions': regions, 'omit': list(omit), 'trim': list(trim), 'code': code, 'version': version, 'order': order}
        ctx.case((rc.join_memory(regions), omit, code), nontrivial=True)
        for n in omit:
            ctx.feature('omitted_' + n)
        want = {n: (empty[n] if n in omit else regions[n]) for n in names}
        try:
            g = P8Formatter.from_file(io.BytesIO(data))
        except Exception as e:
            ctx.violation('.p8 reader raised %r on a file without the sections %s' % (e, list(omit)), case)
            return
        ctx.monitor('files_with_omitted_sections_read')
        got = carts.game_regions(g)
        for n in names:
            if got[n] != want[n]:
                ctx.violation('.p8 reader: section %s (%s) reads as %d bytes %s; expected the %s of %d bytes%s' % (
                    n, 'omitted from the file' if n in omit else 'written without its trailing default rows' if n in trim else 'present', len(got[n]), 'that differ from the default' if n in omit else
                    'that differ from the text', 'default region' if n in omit else 'bytes the text encodes', len(want[n]),
                    ' (an earlier cart loaded in this process was edited in that section)' if (prev and n in prev and n in omit) else ''), case)
                return
        # written back in both formats, read by the reference readers
        try:
            buf = io.BytesIO()
            P8Formatter.to_file(g, buf)
            ref = rc.read_p8(buf.getvalue())
            buf2 = io.BytesIO()
            P8PNGFormatter.to_file(g, buf2)
            refp = rc.read_p8png(buf2.getvalue())
        except Exception as e:
            ctx.violation('writing back a cart loaded from a file without the sections %s failed: %r' % (list(omit), e), case)
            return
        ctx.monitor('carts_with_omitted_sections_written_back')
        for n in names:
            w = want[n] if n != 'music' else rc.music_mask(want[n])
            if ref[n] is None or ref[n] != w:
                ctx.violation('.p8 written back: section %s has %s bytes, the cart memory has %d' % (
                    n, 'no' if ref[n] is None else len(ref[n]), len(w)), case)
                return
            if refp[n] != want[n]:
                ctx.violation('.p8.png written back: region %s at its address differs from the cart memory' % n, case)
                return
        if refp['version'] != version:
            ctx.violation('.p8.png written back: byte 0x8000 is %d, the version is %d' % (refp['version'], version), case)
            return
        # edit every omitted section of this cart; the next cart's omitted sections must not show the edits
        try:
            if 'gff' in omit:
                g.gff.set_flags(rng.randrange(256), 0xff)
            if 'map' in omit:
                g.map.set_cell(rng.randrange(128), rng.randrange(32), 1 + rng.randrange(255))
            if 'gfx' in omit:
                g.gfx.set_sprite(rng.randrange(256), [[1 + rng.randrange(15) for _ in range(8)] for _ in range(8)])
            if 'music' in omit:
                g.music.set_channel(rng.randrange(64), rng.randrange(4), rng.randrange(64))
            if 'sfx' in omit:
                g.sfx.set_note(rng.randrange(64), rng.randrange(32), pitch=1 + rng.randrange(60), waveform=3, volume=5, effect=1)
            g.write_cart_data(b'\xee' * 16, rng.choice((0x0, 0x2000, 0x3000, 0x3100, 0x3200)))
        except Exception as e:
            ctx.violation('editing a cart loaded from a file without the sections %s failed: %r' % (list(omit), e), case)
            return
        prev = set(omit)
        ctx.feature('omitted_section_carts')


def replay(case, ctx):
    if case.get('kind') == 'section':
        section_pair(ctx, case['name'], case['data'])
    elif case.get('kind') == 'testdata':
        check_testdata(ctx)
    else:
        ctx.inconclusive_because('whole-file replay: rerun the check (case data is in the replay file)')


def gates(m, tier):
    f, mon = m['features'], m['monitors']
    missed = []
    if f.get('sfx_note_words_covered', 0) != 65536:
        missed.append('sfx note words covered: %d' % f.get('sfx_note_words_covered', 0))
    if f.get('gfx_value_column_pairs', 0) != 256 * 64:
        missed.append('gfx value/column pairs: %d' % f.get('gfx_value_column_pairs', 0))
    if f.get('music_flag_channel_value', 0) != 8 * 4 * 128:
        missed.append('music combinations: %d' % f.get('music_flag_channel_value', 0))
    if f.get('gff_all_values', 0) < 1 or f.get('stego_all_values', 0) < 1:
        missed.append('gff/stego all-values case missing')
    if f.get('testdata_pairs', 0) < 3:
        missed.append('testdata pairs: %d' % f.get('testdata_pairs', 0))
    for k in ('p8_files_written_and_reference_read', 'p8_files_reference_written_and_read',
              'png_files_reference_written_and_read', 'png_files_written_and_reference_read'):
        if mon.get(k, 0) < 20:
            missed.append('%s = %d' % (k, mon.get(k, 0)))
    if f.get('resave_histories', 0) < 20 or f.get('crlf_file_accepted', 0) + f.get('crlf_file_rejected', 0) < 10:
        missed.append('resave histories %d, CRLF variants %d' % (f.get('resave_histories', 0), f.get('crlf_file_accepted', 0) + f.get('crlf_file_rejected', 0)))
    if f.get('sections_in_another_order', 0) < 8:
        missed.append('files with sections in another order: %d' % f.get('sections_in_another_order', 0))
    if any(f.get('trimmed_' + n, 0) < 3 for n, _ in rc.REGIONS):
        missed.append('sections written without trailing default rows: %s' % {n: f.get('trimmed_' + n, 0) for n, _ in rc.REGIONS})
    if f.get('omitted_section_carts', 0) < 15 or any(f.get('omitted_' + n, 0) < 3 for n, _ in rc.REGIONS):
        missed.append('carts from files with omitted sections: %d (%s)' % (
            f.get('omitted_section_carts', 0), {n: f.get('omitted_' + n, 0) for n, _ in rc.REGIONS}))
    if f.get('file_with_meta_title_section', 0) < 10 or f.get('meta_section_not_last', 0) < 2:
        missed.append('files with a __meta:title__ section: %d (not last: %d)' % (f.get('file_with_meta_title_section', 0), f.get('meta_section_not_last', 0)))
    if f.get('p8_label', 0) < 5 or f.get('p8_nolabel', 0) < 5 or f.get('p8_black_label', 0) < 3:
        missed.append('label present/absent under-sampled')
    return missed
