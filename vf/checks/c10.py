"""C10 — luafmt output is canonical: indentation follows nesting, idempotent.

Monitors on the real LuaFormatterWriter (Lua.to_lines(writer_cls=LuaFormatterWriter, writer_args={'indentwidth': n})):
 (1) metamorphic pairs: the same program with the same line breaks but different indentation / trailing blanks (tabs and
     spaces, outside multi-line tokens) must format to identical bytes;
 (2) idempotence: formatting the output again changes nothing;
 (3) an independent depth tracker over the reference token stream of the OUTPUT (openers then do repeat else function-body
     ( { [ ; closers end until elseif else ) } ] count as already closed) predicts the indentation of every line whose first
     token is code: exactly width x depth spaces;
 (4) line shape: no line ends in whitespace, never two blank lines in a row between lines, no blank line at the end.
"""
from .. import progen, layout, reflex
from .. import ambient

LEVEL = 'exploration'
RULE = ('generated dialect programs laid out one statement per line (block closers on their own lines) with random leading whitespace '
        '(spaces/tabs), trailing blanks, blank-line runs (also inside blocks) and comment-only lines (--, //, block, multi-line block), plus '
        'the other layout styles for clauses 2-4, x indent widths 0-8. A case is one (program, layout, width); non-trivial: >= 3 output lines '
        'starting with a code token at depth >= 1; distinct by (source, width) hash')
ASSUMPTIONS = [
    'only lines that begin with a code token are measured; comment placement and blank lines at the very top are not judged',
    'lines inside multi-line tokens (long strings/comments) are neither re-indented in the input nor measured in the output',
    'the metamorphic transformation changes only leading whitespace of a line and appends trailing spaces/tabs',
]
EXHAUSTIVE = {'quick': False, 'thorough': False}
PYOPT_KINDS = (None,)
CLOCALE_KINDS = (None,)
KNOWN_KEYS = {'blank-line-in-block', 'slashslash-own-line', 'eof-trailing-space-newline', 'table-trailing-separator-dedent'}
OPEN_KW = (b'then', b'do', b'repeat')
OPEN_SYM = (b'(', b'{', b'[')
CLOSE_SYM = (b')', b'}', b']')


def plan(tier, seed):
    n = 16 if tier == 'quick' else 64
    specs = [{'count': 110 if tier == 'quick' else 600, 'deep': tier == 'thorough' and i % 4 == 2} for i in range(n)]
    for i in range(2 if tier == 'quick' else 8):
        specs.append({'kind': 'deep', 'count': 24 if tier == 'quick' else 96})
    specs.append({'kind': 'blank_runs'})
    for i in range(2 if tier == 'quick' else 6):
        specs.append({'kind': 'bigcart', 'width': (4, 8, 3, 6, 2, 5)[i], 'stmts': 150})
    return specs


def fmt(src, width):
    from pico8.lua import lua
    L = lua.Lua.from_lines([src], version=ambient.VERSION[0])
    return b''.join(L.to_lines(writer_cls=lua.LuaFormatterWriter, writer_args={'indentwidth': width}))


def fmt_twice_same_args(src, width):
    """Two formatting passes that share one writer-args dict (what the cart writer does: a size-check pass, then the
    write pass)."""
    from pico8.lua import lua
    L = lua.Lua.from_lines([src], version=ambient.VERSION[0])
    args = {'indentwidth': width}
    a = b''.join(L.to_lines(writer_cls=lua.LuaFormatterWriter, writer_args=args))
    b = b''.join(L.to_lines(writer_cls=lua.LuaFormatterWriter, writer_args=args))
    return a, b


def fmt_cli_png(src, width, workdir):
    """`p8tool luafmt --indentwidth N cart.p8.png` -> code stored in cart_fmt.p8.png (reference reader and decoder)."""
    import os
    from pico8 import tool
    from .. import refcodec as rc, carts
    import random
    regions, _ = carts.random_regions(random.Random(3), 'zero')
    p1 = os.path.join(workdir, ambient.BASE[0] + '.p8.png')
    pf = os.path.join(workdir, ambient.BASE[0] + '_fmt.p8.png')
    if os.path.exists(pf):
        os.remove(pf)
    with open(p1, 'wb') as fh:
        fh.write(rc.write_p8png(regions, rc.raw_code_area(src) if len(src) % 2 else rc.code_area_from_items(rc.c_greedy(src), len(src)), 8))
    rcode = tool.main([ambient.vflag(), 'luafmt', '--indentwidth', str(width), p1])
    if rcode:
        raise RuntimeError('p8tool luafmt returned %r' % rcode)
    with open(pf, 'rb') as fh:
        r = rc.read_p8png(fh.read())
    return rc.strip_future(rc.decode_code_area(r['code_area'], r['version']))


def fmt_cli(src, width, workdir, overwrite=False):
    """`p8tool luafmt --indentwidth N cart.p8` -> code of cart_fmt.p8 (reference reader); with overwrite: `--overwrite`, code of
    cart.p8 itself afterwards."""
    import os
    from pico8 import tool
    from .. import refcodec as rc, carts
    import random
    regions, _ = carts.random_regions(random.Random(3), 'zero')
    p1 = os.path.join(workdir, ambient.BASE[0] + '.p8')
    pf = os.path.join(workdir, ambient.BASE[0] + '_fmt.p8')
    if os.path.exists(pf):
        os.remove(pf)
    with open(p1, 'wb') as fh:
        fh.write(rc.write_p8_variant(random.Random(len(src)), regions, src, version=ambient.VERSION[0]))
    rcode = tool.main([ambient.vflag(), 'luafmt'] + (['--overwrite'] if overwrite else []) + ['--indentwidth', str(width), p1])
    if rcode:
        raise RuntimeError('p8tool luafmt returned %r' % rcode)
    with open(p1 if overwrite else pf, 'rb') as fh:
        return rc.read_p8(fh.read())['code']


def depth_oracle(toks, skip=()):
    """-> list of (line_no, expected_depth, leading_space_bytes, first_token) for lines that begin with a code token.

    skip: indices (among significant tokens) of tokens inside one-line constructs (short-if, `?`, compound assignment): they
    open nothing that is still open at the end of their line, and a short-if's `else` has no opener, so they do not drive
    the stack."""
    out = []
    stack = []
    pending_function = 0   # number of `function` keywords whose parameter list has not opened yet
    at_line_start = True
    lead = b''
    sig_index = -1
    for t in toks:
        if t.sig:
            sig_index += 1
            if sig_index in skip:
                if at_line_start:
                    out.append((t.line, len(stack), lead, t))
                at_line_start = False
                continue
        if t.kind == 'newline':
            at_line_start = True
            lead = b''
            continue
        if t.kind == 'space':
            if at_line_start:
                lead += t.raw
            continue
        if t.kind == 'comment':
            # a comment first on the line: the line is not measured; later code on that line is not line-leading
            at_line_start = False
            if b'\n' in t.raw:
                at_line_start = False
            continue
        # significant token: closers act before the line is measured
        if t.kind == 'keyword' and t.raw in (b'end', b'until', b'elseif', b'else'):
            if stack:
                stack.pop()
        elif t.kind == 'symbol' and t.raw in CLOSE_SYM:
            ent = stack.pop() if stack else None
        else:
            ent = None
        if at_line_start:
            out.append((t.line, len(stack), lead, t))
        at_line_start = False
        # openers act after
        if t.kind == 'keyword':
            if t.raw in OPEN_KW or t.raw == b'else':
                stack.append(t.raw)
            elif t.raw == b'function':
                pending_function += 1
        elif t.kind == 'symbol':
            if t.raw == b'(' and pending_function:
                pending_function -= 1
                stack.append(b'params')
            elif t.raw in OPEN_SYM:
                stack.append(t.raw)
            elif t.raw == b')' and ent == b'params':
                stack.append(b'function-body')
        if t.kind == 'string' and b'\n' in t.raw:
            pass
    return out


def shape_problems(toks):
    """Clause (4) on the reference tokens of the output."""
    for i, t in enumerate(toks):
        if t.kind == 'newline' and i > 0 and toks[i - 1].kind == 'space':
            return 'line %d ends in whitespace' % t.line
        if t.kind == 'comment' and not t.long and t.raw.rstrip(b' \t') != t.raw:
            return 'line %d ends in whitespace (inside a line comment)' % t.line
    if toks and toks[-1].kind == 'space':
        return 'last line ends in whitespace'
    run = 0
    seen_content = False
    for t in toks:
        if t.kind == 'newline':
            run += 1
            if seen_content and run >= 3:
                return 'two blank lines in a row before line %d' % (t.line + 1)
        else:
            run = 0
            seen_content = True
    if seen_content and len(toks) >= 2 and toks[-1].kind == 'newline' and toks[-2].kind == 'newline':
        return 'blank line at the end of the output'
    return None


def reindent(src, rng):
    """Same tokens and line breaks, different leading/trailing blanks on lines that start outside multi-line tokens."""
    toks = reflex.lex(src)
    # byte offsets of physical line starts that are NOT inside a multi-line token
    inside = set()
    for t in toks:
        if t.kind in ('string', 'comment') and b'\n' in t.raw:
            off = t.off
            for k, ch in enumerate(t.raw):
                if ch == 10:
                    inside.add(off + k + 1)
    lines = src.split(b'\n')
    out = []
    pos = 0
    for li, ln in enumerate(lines):
        start = pos
        pos += len(ln) + 1
        last = li == len(lines) - 1
        next_start_inside = pos in inside
        body = ln
        cr = b''
        if body.endswith(b'\r'):
            body, cr = body[:-1], b'\r'
        if start not in inside:
            stripped = body.lstrip(b' \t')
            body = rng.choice((b'', b' ', b'  ', b'\t', b'    ', b' \t', b'        ', b'\t\t')) + stripped if stripped or rng.random() < 0.5 else b''
        if not next_start_inside and not (last and ln == b''):
            body = body.rstrip(b' \t') + rng.choice((b'', b'', b' ', b'   ', b'\t', b' \t '))
        out.append(body + cr)
    return b'\n'.join(out)


def classify(src, out, problem):
    """Mechanism keys for the two formerly known formatter defects."""
    if b'//' in src:
        toks = reflex.lex(src)
        for i, t in enumerate(toks):
            if t.kind == 'comment' and t.raw.startswith(b'//'):
                # own-line // comment?
                j = i - 1
                while j >= 0 and toks[j].kind == 'space':
                    j -= 1
                if j < 0 or toks[j].kind == 'newline':
                    return 'slashslash-own-line'
    if 'ends in whitespace' in problem or 'idempot' in problem or 'differ' in problem:
        toks = reflex.lex(src)
        for i in range(len(toks) - 2):
            if toks[i].kind == 'newline' and toks[i + 1].kind in ('newline', 'space'):
                return 'blank-line-in-block'
    return None


def check_one(ctx, src, width, case, metamorphic_rng=None):
    nlines_code = 0
    try:
        out = fmt(src, width)
    except Exception as e:
        ctx.violation('luafmt raised %r (C09 owns this; recorded here because nothing else can be checked)' % (e,), case)
        return
    ctx.monitor('formatter_runs')
    rout, err = reflex.try_lex(out)
    if err is not None:
        ctx.violation('output does not lex: %s' % err, case)
        return
    # (3) indentation
    skip = set()
    for (i, j, kind) in case.get('scopes', []):
        if kind is True:
            skip.update(range(i, j + 1))
    if len([t for t in rout if t.sig]) != case.get('nsig', -1) and case.get('scopes'):
        ctx.violation('output has a different number of significant tokens than the input (C09 owns this)', case)
        return
    measured = depth_oracle(rout, skip)
    deep_lines = 0
    for (line, depth, lead, tok) in measured:
        ctx.monitor('lines_measured')
        if depth >= 1:
            deep_lines += 1
        ctx.feature('depth_%d' % min(depth, 6))
        if lead != b' ' * (width * depth):
            ctx.case((src, width), nontrivial=True)
            p = 'line %d (%r...) is indented by %r, expected %d spaces (width %d x depth %d)' % (
                line + 1, tok.raw[:20], lead, width * depth, width, depth)
            ctx.violation(p, case, key=classify(src, out, p))
            return
    ctx.case((src, width), nontrivial=deep_lines >= 3)
    # (4) shape
    p = shape_problems(rout)
    ctx.monitor('shape_checks')
    if p:
        ctx.violation('output shape: ' + p, case, key=classify(src, out, p))
        return
    # (2) idempotence
    try:
        out2 = fmt(out, width)
    except Exception as e:
        ctx.violation('formatting the formatted code raised %r' % (e,), case)
        return
    ctx.monitor('idempotence_checks')
    if out2 != out:
        d = next((i for i in range(min(len(out), len(out2))) if out[i] != out2[i]), min(len(out), len(out2)))
        p = 'not idempotent: second pass differs at byte %d: %r vs %r' % (d, out[max(0, d - 30):d + 20], out2[max(0, d - 30):d + 20])
        ctx.violation(p, case, key=classify(src, out, p))
        return
    # the canonical output must not depend on the route: shared args dict, command line
    if metamorphic_rng is not None and metamorphic_rng.random() < 0.25:
        a2, b2 = fmt_twice_same_args(src, width)
        ctx.monitor('shared_args_passes')
        if a2 != out or b2 != out:
            ctx.violation('two passes sharing one writer-args dict (width %d) give different output than a fresh call: pass 1 %s, pass 2 %s' % (
                width, 'same' if a2 == out else 'differs', 'same' if b2 == out else 'differs'), case)
            return
    if case.get('cli_dir') and b'\r' not in src:
        want = src if src.endswith(b'\n') else src + b'\n'
        try:
            got = fmt_cli(src, width, case['cli_dir'])
            lib = fmt(want, width)
        except Exception as e:
            ctx.violation('p8tool luafmt --indentwidth %d failed: %r' % (width, e), case)
            return
        ctx.monitor('cli_outputs_compared')
        if got != lib and got != lib + b'\n':
            d = next((i for i in range(min(len(got), len(lib))) if got[i] != lib[i]), min(len(got), len(lib)))
            ctx.violation('p8tool luafmt --indentwidth %d writes different code than the library formatter at width %d (byte %d: %r vs %r)' % (
                width, width, d, got[max(0, d - 20):d + 20], lib[max(0, d - 20):d + 20]), case)
            return
        if ctx.monitors.get('cli_outputs_compared', 0) % 3 == 1 and b'\x00' not in src and len(src) < 12000:
            # the same command on a .p8.png cart: the options reach the writer whatever the format of the cart
            try:
                gotp = fmt_cli_png(want, width, case['cli_dir'])
            except Exception as e:
                ctx.violation('p8tool luafmt --indentwidth %d failed on a .p8.png cart: %r' % (width, e), case)
                return
            ctx.monitor('cli_png_outputs_compared')
            ctx.feature('cli_png_width_%d' % width)
            if gotp not in (lib, lib + b'\n', lib.rstrip(b'\n')):
                d = next((i for i in range(min(len(gotp), len(lib))) if gotp[i] != lib[i]), min(len(gotp), len(lib)))
                ctx.violation('p8tool luafmt --indentwidth %d on a .p8.png cart writes different code than the library formatter at width %d '
                              '(byte %d: %r vs %r)' % (width, width, d, gotp[max(0, d - 20):d + 20], lib[max(0, d - 20):d + 20]), case)
                return
        # `luafmt --overwrite` on a cart whose code is already canonical except for blanks at its very end (and on the plain source)
        tails = (b'', b'\n', b'\n\n', b'  \n', b'\n \t\n', b'   ', b'\n\n\n')
        tail = tails[ctx.monitors.get('overwrite_runs', 0) % len(tails)]
        almost = out.rstrip(b'\n') + tail
        if reflex.try_lex(almost)[1] is None:
            try:
                got = fmt_cli(almost, width, case['cli_dir'], overwrite=True)
                lib = fmt(almost if almost.endswith(b'\n') else almost + b'\n', width)
            except Exception as e:
                ctx.violation('p8tool luafmt --overwrite --indentwidth %d failed on canonical code plus trailing blanks: %r' % (width, e), case)
                return
            ctx.monitor('overwrite_runs')
            ctx.feature('overwrite_tail_%d' % tails.index(tail))
            if got != lib and got != lib + b'\n':
                ctx.violation('p8tool luafmt --overwrite leaves code that is not the canonical form (canonical code followed by %r): the file ends %r, '
                              'the formatter gives %r' % (tail, got[-20:], lib[-20:]), dict(case, src=almost))
                return
    # (1) metamorphic pair
    if metamorphic_rng is not None:
        src2 = reindent(src, metamorphic_rng)
        a = [(t.kind, t.raw) for t in reflex.lex(src) if t.kind not in ('space',)]
        b2, e2 = reflex.try_lex(src2)
        # comments may have gained trailing blanks: compare modulo that; everything else must be identical
        ok = e2 is None and [(k, r.rstrip(b' \t') if k == 'comment' else r) for k, r in a] == \
            [(t.kind, t.raw.rstrip(b' \t') if t.kind == 'comment' else t.raw) for t in b2 if t.kind != 'space']
        if not ok:
            ctx.monitor('metamorphic_generator_rejects')
            return
        try:
            outb = fmt(src2, width)
        except Exception as e:
            ctx.violation('luafmt raised %r on the re-indented variant' % (e,), dict(case, src2=src2))
            return
        ctx.monitor('metamorphic_pairs')
        if outb != out:
            d = next((i for i in range(min(len(out), len(outb))) if out[i] != outb[i]), min(len(out), len(outb)))
            p = 'output differs between two indentations of the same program (byte %d): %r vs %r' % (
                d, out[max(0, d - 30):d + 25], outb[max(0, d - 30):d + 25])
            ctx.violation(p, dict(case, src2=src2), key=classify(src, out, p) or classify(src2, outb, p))


def deep_program(rng, depth):
    """A chain of `depth` nested openers (block statements, function bodies, tables, call parentheses), one per line, with a
    statement or field at every level; written without indentation."""
    lines = []
    closers = []
    ctxs = ['block']
    for d in range(depth):
        cur = ctxs[-1]
        if cur == 'block':
            k = rng.choice(('if', 'do', 'while', 'for', 'function', 'table', 'call', 'repeat', 'ifelse'))
            if k == 'if':
                lines.append(b'if x%d then' % d); closers.append([b'end']); ctxs.append('block')
            elif k == 'ifelse':
                lines.append(b'if x%d then' % d); closers.append([b'else', b'y=%d' % d, b'end']); ctxs.append('block')
            elif k == 'do':
                lines.append(b'do'); closers.append([b'end']); ctxs.append('block')
            elif k == 'while':
                lines.append(b'while x%d do' % d); closers.append([b'end']); ctxs.append('block')
            elif k == 'for':
                lines.append(b'for i%d=1,2 do' % d); closers.append([b'end']); ctxs.append('block')
            elif k == 'repeat':
                lines.append(b'repeat'); closers.append([b'until x%d' % d]); ctxs.append('block')
            elif k == 'function':
                lines.append(b'function f%d(a,b)' % d); closers.append([b'end']); ctxs.append('block')
            elif k == 'table':
                lines.append(b't%d={' % d); closers.append([b'}']); ctxs.append('table')
            else:
                lines.append(b'f%d(' % d); closers.append([b')']); ctxs.append('args')
            if ctxs[-1] == 'block' and rng.random() < 0.6:
                lines.append(b'local v%d=%d' % (d, d))
        elif cur == 'table':
            k = rng.choice(('table', 'function', 'keytable', 'call'))
            if rng.random() < 0.6:
                lines.append(b'%d,' % d)
            if k == 'table':
                lines.append(b'{'); closers.append([b'}']); ctxs.append('table')
            elif k == 'keytable':
                lines.append(b'k%d={' % d); closers.append([b'}']); ctxs.append('table')
            elif k == 'function':
                lines.append(b'function()'); closers.append([b'end']); ctxs.append('block')
            else:
                lines.append(b'g('); closers.append([b')']); ctxs.append('args')
        else:  # args
            k = rng.choice(('table', 'function', 'call'))
            if rng.random() < 0.5:
                lines.append(b'%d,' % d)
            if k == 'table':
                lines.append(b'{'); closers.append([b'}']); ctxs.append('table')
            elif k == 'function':
                lines.append(b'function()'); closers.append([b'end']); ctxs.append('block')
            else:
                lines.append(b'h('); closers.append([b')']); ctxs.append('args')
    lines.append({'block': b'z=1', 'table': b'99', 'args': b'98'}[ctxs[-1]])
    for c in reversed(closers):
        lines.extend(c)
    return b'\n'.join(lines) + b'\n'


def run_deep(spec, ctx, cli_dir):
    """Indentation wider than any screen: nesting depth x width up to several hundred columns."""
    rng = ctx.rng
    for i in range(spec['count']):
        depth = (12, 18, 22, 28, 45, 85)[i % 6]
        width = (8, 7, 5, 4, 3, 2, 1, 6)[i % 8] if depth < 85 else (1, 2)[i % 2]
        src = deep_program(rng, depth)
        if reflex.try_lex(src)[1] is not None:
            ctx.monitor('generator_rejects')
            continue
        try:
            from pico8.lua import lua
            lua.Lua.from_lines([src], version=ambient.VERSION[0])
        except Exception as e:
            ctx.inconclusive_because('deep-nesting generator produced a program picotool rejects: %r' % (e,))
            return
        ctx.feature('deep_nesting_programs')
        if depth * width > 80:
            ctx.feature('indentation_beyond_80_columns')
        if depth * width > 160:
            ctx.feature('indentation_beyond_160_columns')
        case = {'src': src, 'width': width, 'style': 'deep', 'scopes': [], 'nsig': len(reflex.sig(reflex.lex(src)))}
        if i % 4 == 0:
            case['cli_dir'] = cli_dir
        check_one(ctx, src, width, case, metamorphic_rng=rng)
        case.pop('cli_dir', None)
    ctx.sample({'deep_program': deep_program(rng, 6)})


STATEMENT_TEMPLATES = (b'function f%d()\nx=1\nend', b'local function g%d()\nreturn 1\nend', b'if a%d then\nb=1\nend', b'for i%d=1,2 do\nc=1\nend',
                       b'while w%d do\nbreak\nend', b'do\nlocal d%d=1\nend', b'repeat\ne=1\nuntil u%d', b'local v%d=1', b'x%d=1', b'f%d(1)',
                       b'-- comment %d\nfunction h()\nend', b'--[[ block %d ]]\nlocal function k()\nend', b'if (a%d) b=2', b'?"p%d"',
                       b'::l%d::', b't%d={\n1,\n2\n}', b'return %d')


FIXED_SHAPES = (
    b'if a then\n x=1\nelse if b then\n c=1\n d=2\nelse\n e=3\nend end\n',                  # `else if` on one line, the inner if over several
    b'x =\n  "hello" .. name\nlocal y =\n 1\nt = {\n a =\n 1,\n}\nfor i =\n1, 2 do\n z=i\nend\nn +=\n1\n',   # the value on the line after `=`
    b'if a and\n b then\n c=1\nelseif d or\n e then\n f=2\nend\nwhile x or\n y do\n z=1\nend\nrepeat\n q=1\nuntil a and\n b\n',   # continued conditions
    b'--[[debug]] print(x)\ndo\n --[[off]] y=1\n  --[[a]] --[[b]] z=2\nend\n',                 # a line that begins with a block comment
    b'if a then\n x=1\n -- last words\nend\nwhile b do\n -- only a comment\nend\nfunction f()\n  return 1\n  -- after the return\nend\n',
    b'if (c) do\n x=1\n if (d) do\n  y=2\n end\nend\n',
    b'f(\n 1,\n 2\n)\nt={\n {\n 1\n },\n [2]=\n {\n }\n}\ng{\n a=1\n}\nh(function()\n return 1\nend)\n',
    b'function f()\n return function()\n  return {\n   1\n  }\n end\nend\n',
    b'a = b\n  + c\n  * d\ne = f\n  .. g\nh = i and\n  j\n',                                     # continuation lines of expressions
    b'::top::\nfor i=1,3 do\n ::again::\n goto again\nend\ngoto top\n',
    b'local function f(a,\n b,\n c)\n return a\nend\no:m(\n 1\n):n(\n 2\n)\n',
    b'do ; end\nwhile w do ; end\ndo\n ;\n ;\nend\nx=1;\n;y=2\n',
)


def run_blank_runs(spec, ctx, cli_dir):
    """Runs of 2-5 empty / white-space-only lines in front of every kind of statement, at the top level and inside a block."""
    rng = ctx.rng
    k = 0
    for nested in (False, True):
        for ti, tmpl in enumerate(STATEMENT_TEMPLATES):
            for run in (2, 3, 5):
                if tmpl.startswith(b'return') and not nested:
                    continue
                k += 1
                blanks = b''.join(rng.choice((b'\n', b'\n', b' \n', b'\t\n', b'  \t \n')) for _ in range(run))
                stmt = tmpl % k if b'%d' in tmpl else tmpl
                after = b'' if tmpl.startswith(b'return') else b'\n' + blanks + b'z=9'
                body = b'y=0\n' + blanks + stmt + after
                src = (b'do\n' + body + b'\nend\n') if nested else body + b'\n'
                if reflex.try_lex(src)[1] is not None:
                    continue
                try:
                    from pico8.lua import lua
                    lua.Lua.from_lines([src], version=ambient.VERSION[0])
                except Exception as e:
                    ctx.inconclusive_because('blank-run template does not parse: %r %r' % (e, src))
                    return
                width = (2, 4, 0, 3, 8)[k % 5]
                ctx.feature('blank_runs_before_statement')
                scopes = []
                case = {'src': src, 'width': width, 'style': 'blank-runs', 'scopes': scopes, 'nsig': len(reflex.sig(reflex.lex(src)))}
                # (line-scoped templates: the depth oracle needs their token ranges; they are leaf lines here, so the plain oracle is right)
                check_one(ctx, src, width, case, metamorphic_rng=rng)
    # small programs in shapes the random layouts reach only now and then (each at three widths, each re-indented)
    for src in FIXED_SHAPES:
        for width in (2, 5, 0):
            ctx.feature('fixed_shapes')
            case = {'src': src, 'width': width, 'style': 'fixed-shape', 'scopes': [], 'nsig': len(reflex.sig(reflex.lex(src)))}
            check_one(ctx, src, width, case, metamorphic_rng=rng)
    ctx.sample({'blank_runs': 'y=0 <2-5 blank lines> <statement> <blank lines> z=9, at top level and inside do...end'})


def run_bigcart(spec, ctx, cli_dir):
    """The command line on cart-sized code: within 65535 characters as loaded, beyond it once indented."""
    rng = ctx.rng
    parts = []
    size = 0
    target = spec.get('chars', 56000)
    for attempt in range(400):
        if size >= target:
            break
        p = progen.gen_program(rng, {'depth': 3, 'max_stmts': 3, 'top_stmts': 12, 'goto': False, 'multiline_strings': False,
                                     'stat_bias': ['if', 'do', 'while', 'forstep', 'function'] * 4, 'glyph_names': False})
        one = layout.render(p, rng, style='lines', crlf=False)
        if one is None or any(t.kind in ('string', 'comment') and b'\n' in t.raw for t in reflex.lex(one)):
            continue
        one = b'do\n' + b'\n'.join(l.lstrip(b' \t') for l in one.split(b'\n')).rstrip(b'\n') + b'\nend\n'
        if size + len(one) > 65000:
            continue
        parts.append(one)
        size += len(one)
    src = b''.join(parts)
    if not (30000 <= len(src) <= 65535) or reflex.try_lex(src)[1] is not None:
        ctx.inconclusive_because('no cart-sized program within 30000..65535 characters generated (%d)' % len(src))
        return
    width = spec.get('width', 4)
    lib = fmt(src if src.endswith(b'\n') else src + b'\n', width)
    ctx.feature('cart_sized_cli_runs')
    ctx.monitor('cart_sized_formatted_chars', len(lib))
    if len(src) <= 65535 < len(lib):
        ctx.feature('formatted_code_exceeds_65535_chars')
    case = {'src': src, 'width': width, 'style': 'bigcart', 'scopes': [], 'nsig': -1}
    ctx.case((src, width), nontrivial=True)
    try:
        got = fmt_cli(src, width, cli_dir)
    except Exception as e:
        ctx.violation('p8tool luafmt --indentwidth %d failed on a cart-sized program: %r' % (width, e), case)
        return
    ctx.monitor('cli_outputs_compared')
    if got != lib and got != lib + b'\n':
        d = next((i for i in range(min(len(got), len(lib))) if got[i] != lib[i]), min(len(got), len(lib)))
        ctx.violation('p8tool luafmt --indentwidth %d on a cart-sized program (%d characters, %d formatted) writes different code than the '
                      'library formatter (byte %d: %r vs %r)' % (width, len(src), len(lib), d, got[max(0, d - 20):d + 20],
                                                                 lib[max(0, d - 20):d + 20]), case)


def run_shard(spec, ctx):
    import shutil
    import tempfile
    cli_dir = tempfile.mkdtemp(prefix='vf-c10-')
    try:
        if spec.get('kind') == 'deep':
            run_deep(spec, ctx, cli_dir)
        elif spec.get('kind') == 'bigcart':
            run_bigcart(spec, ctx, cli_dir)
        elif spec.get('kind') == 'blank_runs':
            run_blank_runs(spec, ctx, cli_dir)
        else:
            _run_shard(spec, ctx, cli_dir)
    finally:
        shutil.rmtree(cli_dir, ignore_errors=True)


def _run_shard(spec, ctx, cli_dir):
    rng = ctx.rng
    for i in range(spec['count']):
        depth = rng.choice((1, 2, 3, 3)) if not spec.get('deep') else rng.choice((3, 4, 5))
        p = progen.gen_program(rng, {'depth': depth, 'max_stmts': 4 if depth <= 3 else 2, 'exotic_numbers': True,
                                     'exotic_strings': True, 'paren_op_prefix': rng.random() < 0.2})
        style = rng.choice(('lines', 'lines', 'lines', 'normal', 'wild', 'tight'))
        src = layout.render(p, rng, style=style)
        if src is None:
            ctx.monitor('generator_rejects')
            continue
        width = rng.randrange(9)
        ctx.feature('width_%d' % width)
        ctx.feature('style_' + style)
        toks = reflex.lex(src)
        for k in range(len(toks) - 2):
            if toks[k].kind == 'newline' and (toks[k + 1].kind == 'newline' or
                                              (toks[k + 1].kind == 'space' and toks[k + 2].kind == 'newline')):
                ctx.feature('input_has_blank_lines')
                break
        if any(t.kind == 'comment' and t.raw.startswith(b'//') for t in toks):
            ctx.feature('input_has_slashslash_comment')
        case = {'src': src, 'width': width, 'style': style, 'scopes': [list(x) for x in p.scopes], 'nsig': len(p.toks)}
        if i % 8 == 0:
            case['cli_dir'] = cli_dir
        check_one(ctx, src, width, case, metamorphic_rng=rng)
        case.pop('cli_dir', None)
        if i == 0:
            ctx.sample({'source': src[:200], 'width': width, 'formatted': fmt(src, width)[:200] if True else None})


def replay(case, ctx):
    import random
    case['scopes'] = [tuple(x) for x in case.get('scopes', [])]
    check_one(ctx, case['src'], case['width'], case, metamorphic_rng=None)
    if 'src2' in case:
        a, b = fmt(case['src'], case['width']), fmt(case['src2'], case['width'])
        if a != b:
            ctx.violation('output differs between two indentations of the same program', case,
                          key=classify(case['src'], a, 'differ'))


def gates(m, tier):
    f, mon = m['features'], m['monitors']
    missed = []
    for w in range(9):
        if f.get('width_%d' % w, 0) < 20:
            missed.append('width %d used %d times' % (w, f.get('width_%d' % w, 0)))
    if mon.get('metamorphic_pairs', 0) < 200:
        missed.append('metamorphic pairs: %d (<200)' % mon.get('metamorphic_pairs', 0))
    for k in ('input_has_blank_lines', 'input_has_slashslash_comment', 'style_lines', 'depth_1', 'depth_2', 'depth_3'):
        if f.get(k, 0) < 20:
            missed.append('%s seen %d times' % (k, f.get(k, 0)))
    if mon.get('cli_outputs_compared', 0) < 50 or mon.get('shared_args_passes', 0) < 100:
        missed.append('route independence: cli %d, shared args %d' % (mon.get('cli_outputs_compared', 0), mon.get('shared_args_passes', 0)))
    if f.get('blank_runs_before_statement', 0) < 80:
        missed.append('blank-line runs before statements: %d' % f.get('blank_runs_before_statement', 0))
    if f.get('indentation_beyond_80_columns', 0) < 10 or f.get('indentation_beyond_160_columns', 0) < 3:
        missed.append('indentation beyond 80 columns: %d programs (beyond 160: %d)' % (
            f.get('indentation_beyond_80_columns', 0), f.get('indentation_beyond_160_columns', 0)))
    if f.get('formatted_code_exceeds_65535_chars', 0) < 1 or mon.get('overwrite_runs', 0) < 50:
        missed.append('command line: carts whose formatted code exceeds 65535 characters %d, --overwrite runs %d' % (
            f.get('formatted_code_exceeds_65535_chars', 0), mon.get('overwrite_runs', 0)))
    if mon.get('cli_png_outputs_compared', 0) < 30:
        missed.append('command line on .p8.png carts: %d' % mon.get('cli_png_outputs_compared', 0))
    if mon.get('lines_measured', 0) < 3000:
        missed.append('lines measured: %d' % mon.get('lines_measured', 0))
    return missed
