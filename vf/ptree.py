"""Normaliser: picotool's exposed syntax tree -> the generator's expected-tree normal form (DESIGN Appendix B).

Uses only the public vocabulary: node class names and their _fields."""


def norm_chunk(node):
    return ('Chunk', [norm_stat(s) for s in node.stats])


def _name(tok):
    return bytes(tok.value) if hasattr(tok, 'value') else bytes(tok)


def norm_stat(n):
    k = type(n).__name__
    if k == 'StatAssignment':
        return (k, [atom(v) for v in n.varlist.vars], bytes(n.assignop.code), [flat(e) for e in n.explist.exps])
    if k == 'StatFunctionCall':
        return (k, atom(n.functioncall))
    if k == 'StatDo':
        return (k, norm_chunk(n.block))
    if k == 'StatWhile':
        return (k, flat(n.exp), norm_chunk(n.block))
    if k == 'StatRepeat':
        return (k, norm_chunk(n.block), flat(n.exp))
    if k == 'StatIf':
        pairs = [((flat(e) if e is not None else None), norm_chunk(b)) for (e, b) in n.exp_block_pairs]
        return (k, pairs, bool(getattr(n, 'short_if', False)))
    if k == 'StatForStep':
        return (k, _name(n.name), flat(n.exp_init), flat(n.exp_end),
                flat(n.exp_step) if n.exp_step is not None else None, norm_chunk(n.block))
    if k == 'StatForIn':
        return (k, [_name(x) for x in n.namelist.names], [flat(e) for e in n.explist.exps], norm_chunk(n.block))
    if k == 'StatFunction':
        fn = n.funcname
        return (k, ([_name(x) for x in fn.namepath], _name(fn.methodname) if fn.methodname is not None else None),
                funcbody(n.funcbody))
    if k == 'StatLocalFunction':
        return (k, _name(n.funcname), funcbody(n.funcbody))
    if k == 'StatLocalAssignment':
        return (k, [_name(x) for x in n.namelist.names],
                [flat(e) for e in n.explist.exps] if n.explist is not None else None)
    if k == 'StatGoto':
        return (k, bytes(n.label))
    if k == 'StatLabel':
        return (k, bytes(n.label))
    if k == 'StatBreak':
        return (k,)
    if k == 'StatReturn':
        return (k, [flat(e) for e in n.explist.exps] if n.explist is not None else None)
    raise ValueError('unknown statement node %s' % k)


def funcbody(n):
    params = [_name(x) for x in n.parlist.names] if n.parlist is not None else None
    return ('FunctionBody', params, n.dots is not None, norm_chunk(n.block))


def flat(n):
    """Source-order sequence of operators and operands of an expression node."""
    k = type(n).__name__
    if k == 'ExpBinOp':
        return flat(n.exp1) + [('op', bytes(n.binop.code))] + flat(n.exp2)
    if k == 'ExpUnOp':
        return [('op', bytes(n.unop.code))] + flat(n.exp)
    if k == 'ExpValue':
        v = n.value
        if v is None:
            return [('nil',)]
        if v is False:
            return [('false',)]
        if v is True:
            return [('true',)]
        vk = type(v).__name__
        if vk == 'TokNumber':
            return [('num', bytes(v.code))]
        if vk == 'TokString':
            return [('str', bytes(v.value))]
        return flat(v)
    if k == 'VarargDots':
        return [('...',)]
    return [atom(n)]


def args(a):
    k = type(a).__name__
    if k == 'FunctionArgs':
        return ('FunctionArgs', [flat(e) for e in a.explist.exps] if a.explist is not None else None)
    if k == 'TableConstructor':
        return atom(a)
    if k == 'TokString':
        return ('str', bytes(a.value))
    if a is None:
        return ('FunctionArgs', None)
    raise ValueError('unknown args %s' % k)


def atom(n):
    k = type(n).__name__
    if k == 'VarName':
        return ('VarName', _name(n.name))
    if k == 'VarIndex':
        return ('VarIndex', flat(n.exp_prefix), flat(n.exp_index))
    if k == 'VarAttribute':
        return ('VarAttribute', flat(n.exp_prefix), _name(n.attr_name))
    if k == 'FunctionCall':
        return ('FunctionCall', flat(n.exp_prefix), args(n.args))
    if k == 'FunctionCallMethod':
        return ('FunctionCallMethod', flat(n.exp_prefix), _name(n.methodname), args(n.args))
    if k == 'Function':
        return ('Function', funcbody(n.funcbody))
    if k == 'TableConstructor':
        fields = []
        for f in n.fields:
            fk = type(f).__name__
            if fk == 'FieldExpKey':
                fields.append((fk, flat(f.key_exp), flat(f.exp)))
            elif fk == 'FieldNamedKey':
                fields.append((fk, _name(f.key_name), flat(f.exp)))
            else:
                fields.append((fk, flat(f.exp)))
        return ('TableConstructor', fields)
    f = flat(n)
    if len(f) == 1:
        return f[0]
    return ('flat', f)


def first_diff(a, b, path='root'):
    """Human-readable location of the first difference between two normal-form trees, or None."""
    if type(a) != type(b) and not (isinstance(a, (list, tuple)) and isinstance(b, (list, tuple))):
        return '%s: %r vs %r' % (path, _s(a), _s(b))
    if isinstance(a, (list, tuple)):
        if len(a) != len(b):
            heads = (a[0] if a and isinstance(a[0], str) else '', b[0] if b and isinstance(b[0], str) else '')
            return '%s: %d vs %d elements %s: %s vs %s' % (path, len(a), len(b), heads, _s(a), _s(b))
        for i, (x, y) in enumerate(zip(a, b)):
            tag = a[0] if isinstance(a, tuple) and a and isinstance(a[0], str) else ''
            d = first_diff(x, y, '%s/%s[%d]' % (path, tag, i))
            if d:
                return d
        return None
    return None if a == b else '%s: %r vs %r' % (path, _s(a), _s(b))


def _s(x):
    s = repr(x)
    return s if len(s) < 160 else s[:160] + '...'
