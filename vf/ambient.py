"""AMBIENT PROCESS STATE — settings the properties do not mention and therefore must not depend on.

Each shard runs at one of picotool's verbosity levels (normal, debug, quiet: rotated by shard index unless the spec names one);
picotool's message streams are replaced by a sink so that nothing is printed.  Command lines built by the checks carry the flag
for the shard's level (`vflag()`): `--debug` at debug, `-q` otherwise (one flag in every case, so argument positions do not
depend on the level).  Checks that study verbosity themselves (C03, C11) override this locally and restore it.
"""
LEVEL = ['normal']
VERSION = [8]        # the cart / Lua version number the Lua-tool checks create their objects and cart files with (rotates per shard)
BASE = ['cart']      # base name for the cart files a shard hands to the command line (rotates over vf.carts.CART_BASENAMES)


class Sink:
    def __init__(self):
        self.chars = 0

    def write(self, s):
        self.chars += len(s)

    def flush(self):
        pass


def vflag():
    return '--debug' if LEVEL[0] == 'debug' else '-q'


TMP_OTHER_FS = [None]


def _other_filesystem_tmpdir(spec):
    """Every fourth shard: the default temporary directory (what the code under test gets from tempfile) lies on another file
    system than the directories the checks create for carts (tempfile.mkdtemp(prefix='vf-...') keeps using the usual one), when
    /dev/shm offers one.  Moving a finished file into place then crosses a device boundary."""
    import atexit
    import os
    import shutil
    import tempfile
    digits = ''.join(ch for ch in str(spec.get('name', 'shard0')) if ch.isdigit())
    if int(digits or 0) % 4 != 2:
        return
    usual = tempfile.gettempdir()
    try:
        if not os.path.isdir('/dev/shm') or os.stat('/dev/shm').st_dev == os.stat(usual).st_dev:
            return
        other = tempfile.mkdtemp(prefix='vf-ambient-', dir='/dev/shm')
    except OSError:
        return
    atexit.register(shutil.rmtree, other, True)
    tempfile.tempdir = other
    os.environ['TMPDIR'] = other
    real_mkdtemp = tempfile.mkdtemp

    def mkdtemp(suffix=None, prefix=None, dir=None):
        if dir is None and prefix and str(prefix).startswith('vf-'):
            dir = usual
        return real_mkdtemp(suffix, prefix, dir)
    tempfile.mkdtemp = mkdtemp
    TMP_OTHER_FS[0] = other


# options of p8tool that carry a value: the statements say what the option does, none says that something in the environment may
# overrule it.  Every third shard runs with variables named after these options (PICO8_ + the option's words, and each prefix of
# them) set to values that disagree with every command line the checks build.  picotool reads PICO8_LUA_PATH only (left alone here).
VALUE_OPTIONS = {'keep-names-from-file': 'file', 'keep-names': 'file', 'indent-width': 'int', 'indentwidth': 'int', 'indent': 'int',
                 'lua-format': 'flag', 'lua-minify': 'flag', 'keep-all-names': 'flag', 'overwrite': 'flag'}
ENV_SET = {}


def _hostile_environment(spec):
    import atexit
    import os
    import tempfile
    digits = ''.join(ch for ch in str(spec.get('name', 'shard0')) if ch.isdigit())
    if int(digits or 0) % 3 != 1 or os.environ.get('VF_NO_AMBIENT_ENV'):
        return
    fd, keep = tempfile.mkstemp(prefix='vf-ambient-keep-', suffix='.txt')
    os.write(fd, b'zz_never_used_1\nzz_never_used_2\n')
    os.close(fd)
    atexit.register(lambda: os.path.exists(keep) and os.remove(keep))
    for opt, kind in VALUE_OPTIONS.items():
        words = opt.upper().split('-')
        for k in range(1, len(words) + 1):
            name = 'PICO8_' + '_'.join(words[:k])
            if name in ('PICO8_LUA', 'PICO8_LUA_PATH') or name in os.environ:
                continue
            ENV_SET[name] = os.environ[name] = {'file': keep, 'int': '7', 'flag': '1'}[kind]


def install(spec):
    """Called once per shard process, after pico8 became importable."""
    try:
        from pico8 import util
    except Exception:
        return None
    level = spec.get('verbosity')
    if level is None:
        name = str(spec.get('name', 'shard0'))
        digits = ''.join(ch for ch in name if ch.isdigit())
        level = ('normal', 'debug', 'quiet')[int(digits or 0) % 3]
    LEVEL[0] = level
    try:
        from . import carts
        digits = ''.join(ch for ch in str(spec.get('name', 'shard0')) if ch.isdigit())
        BASE[0] = carts.cart_basename(int(digits or 0) + 1)
        VERSION[0] = (8, 33, 0, 41, 29, 30, 16, 255)[int(digits or 0) % 8]
    except Exception:
        pass
    _other_filesystem_tmpdir(spec)
    _hostile_environment(spec)
    util._write_stream = Sink()
    util._error_stream = Sink()
    util.set_verbosity({'quiet': util.VERBOSITY_QUIET, 'normal': util.VERBOSITY_NORMAL, 'debug': util.VERBOSITY_DEBUG}[level])
    return level
