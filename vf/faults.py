"""FAULT INJECTORS for C11: failing streams, failing Lua writers, failing section objects, failing PNG encoder,
and source-free failpoints raised from sys.monitoring LINE events."""
import sys
import types


class InjectedFault(Exception):
    pass


class FailingStream:
    """Wraps a binary stream; the k-th write() (1-based) raises.  Counts writes."""

    def __init__(self, inner, fail_at):
        self._inner = inner
        self._fail_at = fail_at
        self.writes = 0
        self.failed = False

    def write(self, data):
        self.writes += 1
        if self.writes == self._fail_at:
            self.failed = True
            raise InjectedFault('stream write #%d' % self.writes)
        return self._inner.write(data)

    def __getattr__(self, name):
        return getattr(self._inner, name)


class StreamFaultPatch:
    """Patches a formatter class so that the stream its to_file receives fails on the k-th write."""

    def __init__(self, fmt_cls, fail_at):
        self.cls = fmt_cls
        self.fail_at = fail_at
        self.stream = None
        self.returned = False

    def __enter__(self):
        self.orig = self.cls.__dict__['to_file']
        orig_func = self.orig.__func__
        outer = self

        def to_file(cls, game, outstr, *a, **kw):
            outer.stream = FailingStream(outstr, outer.fail_at)
            r = orig_func(cls, game, outer.stream, *a, **kw)
            outer.returned = True
            return r
        self.cls.to_file = classmethod(to_file)
        return self

    def __exit__(self, *a):
        self.cls.to_file = self.orig
        return False


def failing_writer_cls(base, fail_after, garbage=False, exc=None):
    """A Lua writer that raises after `fail_after` lines (or emits unparseable code when garbage=True).  exc: the exception class
    to raise (default InjectedFault); whatever its type, a writer that raises is a writer that raises."""
    class W(base):
        def to_lines(self):
            n = 0
            for line in base.to_lines(self):
                if n >= fail_after:
                    if garbage:
                        yield b'((( end end\n'
                        return
                    raise (exc or InjectedFault)('lua writer after %d lines' % n)
                n += 1
                yield line
            if garbage:
                yield b'((( end end\n'
            elif n < fail_after:
                return
    W.__name__ = 'Failing' + base.__name__
    return W


class FailingSection:
    """Proxy for a section object whose to_lines/to_bytes raise at item k."""

    def __init__(self, inner, fail_at):
        self._inner = inner
        self._fail_at = fail_at

    def to_lines(self):
        for i, line in enumerate(self._inner.to_lines()):
            if i == self._fail_at:
                raise InjectedFault('section line %d' % i)
            yield line

    def to_bytes(self):
        raise InjectedFault('section to_bytes')

    def __getattr__(self, name):
        return getattr(self._inner, name)


class PngWriterFault:
    """png.Writer.write raises after consuming k rows."""

    def __init__(self, k):
        self.k = k

    def __enter__(self):
        import png
        self.png = png
        self.orig = png.Writer.write
        k = self.k

        def write(wself, outfile, rows):
            def limited():
                for i, r in enumerate(rows):
                    if i == k:
                        raise InjectedFault('png row %d' % i)
                    yield r
            return self.orig(wself, outfile, limited())
        png.Writer.write = write
        return self

    def __exit__(self, *a):
        self.png.Writer.write = self.orig
        return False


# ---------------------------------------------------------------------------
# source-free failpoints


def code_objects_of(modules):
    """All code objects defined in the given modules (functions, methods, nested)."""
    seen = {}

    def add(code):
        if id(code) in seen:
            return
        seen[id(code)] = code
        for c in code.co_consts:
            if isinstance(c, types.CodeType):
                add(c)

    for m in modules:
        fname = getattr(m, '__file__', None)
        for obj in list(vars(m).values()):
            objs = [obj]
            if isinstance(obj, type):
                objs = list(vars(obj).values())
            for o in objs:
                f = getattr(o, '__func__', o)
                code = getattr(f, '__code__', None)
                if isinstance(code, types.CodeType) and code.co_filename == fname:
                    add(code)
    return list(seen.values())


class Failpoints:
    """sys.monitoring LINE callback restricted to the given code objects.

    mode 'record': records the sequence of (code name, line) events.
    mode 'fail':   raises InjectedFault at the n-th event (1-based)."""

    TOOL = 4

    def __init__(self, codes):
        self.codes = codes
        self.count = 0
        self.fail_at = None
        self.sites = []
        self.record = False
        self.fired = None

    def __enter__(self):
        mon = sys.monitoring
        mon.use_tool_id(self.TOOL, 'vf-failpoints')
        mon.register_callback(self.TOOL, mon.events.LINE, self._cb)
        for c in self.codes:
            mon.set_local_events(self.TOOL, c, mon.events.LINE)
        return self

    def __exit__(self, *a):
        mon = sys.monitoring
        for c in self.codes:
            mon.set_local_events(self.TOOL, c, 0)
        mon.register_callback(self.TOOL, mon.events.LINE, None)
        mon.free_tool_id(self.TOOL)
        return False

    def arm(self, fail_at=None, record=False):
        self.count = 0
        self.fail_at = fail_at
        self.record = record
        self.sites = []
        self.fired = None

    def disarm(self):
        self.fail_at = None
        self.record = False

    def _cb(self, code, line):
        if self.fail_at is None and not self.record:
            return
        self.count += 1
        if self.record:
            self.sites.append((code.co_qualname, line))
        if self.fail_at is not None and self.count == self.fail_at:
            self.fired = (code.co_qualname, line)
            self.fail_at = None
            raise InjectedFault('failpoint %s:%d (event %d)' % (code.co_qualname, line, self.count))
