"""LAYOUT ENGINE — turns a generated token list into source text.

Between two tokens it picks a separator: '' (only if the reference lexer still yields the two tokens),
spaces, tabs, line breaks (not inside a line scope; a must-end-line scope is followed by a line break or
the end of the input), `--` / `//` comments followed by a line break, block comments, blank-line runs.
Every rendered source is re-lexed by the reference lexer and rejected (returns None) if the result is not
the intended token list: a generator bug is counted, never blamed on picotool.
"""
from . import reflex

_glue_cache = {}


def glue_ok(a, b):
    k = (a, b)
    v = _glue_cache.get(k)
    if v is None:
        v = reflex.glue_ok(a, b)
        if len(_glue_cache) < 200000:
            _glue_cache[k] = v
    return v


STYLES = ('tight', 'normal', 'lines', 'wild', 'spaced')


def comment_text(rng, glyphs=True):
    n = rng.randint(0, 24)
    pool = b'abcdefghij klmnop qrstuvwxyz ABC 0123456789 .,;:!?()+-*/=<>\'"{}#\\\\'
    out = bytearray()
    for _ in range(n):
        if glyphs and rng.random() < 0.08:
            out.append(rng.choice(range(128, 256)))
        else:
            out.append(rng.choice(pool))
    t = bytes(out)
    if t.startswith(b'['):
        t = b' ' + t
    return t


def block_comment(rng, multiline):
    lvl = rng.choice((0, 0, 1, 2))
    eq = b'=' * lvl
    body = comment_text(rng)
    if multiline:
        # (the second line may look like a comment, a directive or a section header of its own: it is text of this comment)
        body = body[:len(body) // 2] + b'\n' + rng.choice((b'', b'', b'', b'-- ', b'  -- ', b'// ', b'--[[ ', b'#include ')) + body[len(body) // 2:]
    close = b']' + eq + b']'
    body = body.replace(b']', b')')
    if rng.random() < 0.2:
        # an opener inside a block comment opens nothing (the comment ends at the first closer of its level); commented-out code often
        # holds one, and `--` before the closer is the usual toggle idiom
        k = rng.randrange(len(body) + 1)
        inner = rng.choice((b'--[' + eq + b'[', b'--[[', b'[' + eq + b'[', b'--[=[ x', b'-- '))
        body = body[:k] + inner + body[k:]
        if rng.random() < 0.4:
            body += b'--'
    return b'--[' + eq + b'[' + body + close


def line_comment(rng):
    marker = rng.choice((b'--', b'--', b'//'))
    text = comment_text(rng)
    if marker == b'--' and rng.random() < 0.08:
        # a long-bracket opener that does not directly follow the dashes opens nothing: this is a line comment
        text = rng.choice((b' [[', b' [=[', b'  [[ x', b'\t[[', b' [==[ y ]==]')) + text
    if marker == b'//' and rng.random() < 0.2:
        # after `//` a long-bracket opener is plain comment text (it would open a block comment after `--`)
        text = rng.choice((b'[[', b'[=[', b'[[ x ]]', b'[==[')) + text.lstrip(b' ')
    return marker + text


class Layout:
    def __init__(self, prog, rng, style=None, crlf=None, final_newline=None, header=None):
        self.p = prog
        self.rng = rng
        self.style = style or rng.choice(STYLES)
        self.crlf = rng.random() < 0.12 if crlf is None else crlf
        self.final_newline = (rng.random() < 0.8) if final_newline is None else final_newline
        self.header = header
        n = len(prog.toks)
        # per gap g (between token g-1 and g; gap 0 = before first, gap n = after last):
        self.no_newline = [False] * (n + 1)   # inside a line scope
        self.need_newline = [False] * (n + 1)  # directly after a must-end-line scope
        self.tight = [False] * (n + 1)
        for (i, j, kind) in prog.scopes:
            for g in range(i + 1, j + 1):
                self.no_newline[g] = True
                if kind == 'tight':
                    self.tight[g] = True
            if kind is True:
                self.need_newline[j + 1] = True
        for g in getattr(prog, 'must_break', ()):
            self.need_newline[g] = True
        self.stmt_start = set(prog.stmts)
        self.line_start = set(prog.stmts) | set(getattr(prog, 'closers', ()))

    def nl(self):
        return b'\r\n' if self.crlf else b'\n'

    def sep(self, g, prev, nxt):
        """Separator for gap g between raw tokens prev and nxt (either may be None at the ends)."""
        rng = self.rng
        if self.tight[g]:
            return b''
        style = self.style
        can_nl = not self.no_newline[g]
        must_nl = self.need_newline[g] and nxt is not None
        parts = []
        # end-of-line material for a scope end (or any gap where a newline is chosen)
        want_nl = must_nl
        if not want_nl and can_nl and prev is not None and nxt is not None:
            if style == 'lines':
                want_nl = g in self.line_start
            elif style == 'normal':
                want_nl = (g in self.stmt_start and rng.random() < 0.85) or rng.random() < 0.03
            elif style == 'wild':
                want_nl = rng.random() < 0.3
            else:
                want_nl = False
        if style == 'spaced':
            # pair-directed mode: exactly one space between any two tokens (a line break only where required)
            if prev is None or nxt is None:
                return b''
            return self.nl() if must_nl else b' '
        if want_nl:
            if style in ('wild', 'normal', 'lines') and rng.random() < (0.25 if style == 'wild' else 0.1):
                parts.append(rng.choice((b' ', b'  ', b'\t', b'')))
                if rng.random() < 0.5:
                    parts.append(line_comment(rng))
            elif style != 'tight' and rng.random() < 0.15:
                parts.append(rng.choice((b' ', b'\t ', b'   ')))   # trailing whitespace
            parts.append(self.nl())
            # blank lines / own-line comments
            if style != 'tight':
                while rng.random() < (0.2 if style == 'wild' else 0.08):
                    r = rng.random()
                    if r < 0.4:
                        parts.append(rng.choice((b'', b' ', b'\t')) + self.nl())
                    elif r < 0.8:
                        parts.append(rng.choice((b'', b'  ', b'\t')) + line_comment(rng) + self.nl())
                    else:
                        # (an own-line block comment may stand deeper than its continuation lines)
                        parts.append(rng.choice((b'', b'', b'  ', b'\t', b'      ', b'        ')) + block_comment(rng, multiline=rng.random() < 0.5) + self.nl())
                # indentation
                if style == 'lines' or rng.random() < 0.5:
                    parts.append(rng.choice((b'', b' ', b'  ', b'    ', b'\t', b' \t ', b'      ')))
                if style in ('wild', 'normal') and rng.random() < 0.06:
                    # the line begins with a one-line block comment, code follows it (`--[[debug]] print(x)`)
                    parts.append(block_comment(rng, multiline=False) + rng.choice((b' ', b'', b'  ')))
            return self._guard(b''.join(parts), prev, nxt)
        # same-line separator
        if prev is None or nxt is None:
            if style == 'tight':
                return b''
            return rng.choice((b'', b'', b' ', b'\t'))
        need = not glue_ok(prev, nxt)
        if style == 'tight':
            s = b' ' if need else b''
        else:
            r = rng.random()
            if r < 0.12 and (style == 'wild'):
                s = rng.choice((b' ', b'')) + block_comment(rng, multiline=can_nl and rng.random() < 0.3) + rng.choice((b' ', b''))
            elif r < 0.5 and not need:
                s = b''
            elif r < 0.9:
                s = b' '
            else:
                s = rng.choice((b'  ', b'\t', b' \t', b'   '))
        return self._guard(s, prev, nxt)

    def _guard(self, s, prev, nxt):
        """Make sure prev+s and s+nxt do not fuse: a comment opener directly after '-' or '/', etc."""
        if prev is not None and s and s[:1] in b'-/[' and prev[-1:] in b'-/[=':
            s = b' ' + s
        if prev is not None and nxt is not None and s == b'' and not glue_ok(prev, nxt):
            s = b' '
        if nxt is not None and s.endswith(b']') and False:
            s = s + b' '
        return s

    def render(self):
        toks = self.p.toks
        rng = self.rng
        out = []
        if self.header is not None:
            out.append(self.header)
        elif self.style in ('wild', 'normal') and rng.random() < 0.25:
            # leading material
            for _ in range(rng.randint(1, 3)):
                r = rng.random()
                if r < 0.5:
                    out.append(line_comment(rng) + self.nl())
                elif r < 0.7:
                    out.append(self.nl())
                else:
                    out.append(block_comment(rng, multiline=rng.random() < 0.4) + self.nl())
        prev = None
        for g, (kind, raw) in enumerate(toks):
            if g > 0 or self.header is None:
                out.append(self.sep(g, prev, raw) if g > 0 else (self.sep(0, None, raw) if self.header is None else b''))
            out.append(raw)
            prev = raw
        # tail
        tail = []
        if self.style not in ('tight', 'spaced') and rng.random() < 0.2:
            tail.append(rng.choice((b' ', b'\t', b'  ')))
            if rng.random() < 0.6:
                tail.append(line_comment(rng))
        if self.final_newline:
            tail.append(self.nl())
            if self.style == 'wild' and rng.random() < 0.2:
                tail.append(self.nl() * rng.randint(1, 2))
        t = b''.join(tail)
        if prev is not None:
            t = self._guard(t, prev, None)
        out.append(t)
        return b''.join(out)


def render(prog, rng, **kw):
    """-> source bytes, or None when the rendering does not re-lex to the intended tokens."""
    src = Layout(prog, rng, **kw).render()
    return src if verify(prog, src) else None


def verify(prog, src):
    toks, err = reflex.try_lex(src)
    if err is not None:
        return False
    s = reflex.sig(toks)
    if len(s) != len(prog.toks):
        return False
    for t, (kind, raw) in zip(s, prog.toks):
        if t.raw != raw or t.kind != kind:
            return False
    # line scopes hold in the rendered text
    lines = [t.line for t in s]
    endline = [t.line + t.raw.count(b'\n') for t in s]
    for (i, j, kind) in prog.scopes:
        if endline[j] != lines[i]:
            return False
        if kind is True and j + 1 < len(s) and lines[j + 1] == lines[i]:
            return False
    return True


def verify_tokens_only(prog, src):
    """The rendering lexes (reference) to the intended significant tokens; line scopes are not examined."""
    toks, err = reflex.try_lex(src)
    if err is not None:
        return False
    s = reflex.sig(toks)
    return len(s) == len(prog.toks) and all(t.raw == raw and t.kind == kind for t, (kind, raw) in zip(s, prog.toks))
