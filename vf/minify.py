"""Shared monitor code for the luamin properties (C01, C02, C19): run the real minifier and align its output
with the input under the reference lexer."""
import os
from . import ambient

from . import reflex


FILLED_IN_TWO_STEPS = [0]


def token_class(t):
    """Adjacency class of a significant reference token."""
    if t.kind in ('symbol', 'keyword'):
        return t.raw.decode('latin-1')
    if t.kind == 'name':
        return 'name' if t.raw != b'?' else '?'
    if t.kind == 'number':
        return 'number' + ('-leading-dot' if t.raw[:1] == b'.' else '') + ('-trailing-dot' if t.raw[-1:] == b'.' else '')
    if t.kind == 'string':
        return 'longstring' if t.long else 'string'
    return t.kind


def minify_lib(src, config, keep_file=None):
    """Library path: Lua.to_lines(writer_cls=LuaMinifyTokenWriter, writer_args=...) -> output bytes."""
    from pico8.lua import lua
    two_steps = config.endswith('+two_steps')
    if two_steps:
        config = config[:-len('+two_steps')]
    L = None
    if two_steps:
        # the object is filled in two calls (a header stamped in first, the code added afterwards), cut at the first line end at which
        # the reference lexer is between tokens
        starts = {t.off for t in reflex.lex(src)}
        cut = next((i + 1 for i in range(len(src) - 1) if src[i] == 10 and (i + 1) in starts), None)
        if cut is not None:
            try:
                L = lua.Lua.from_lines([src[:cut]], version=ambient.VERSION[0])
                L.update_from_lines([src[cut:]])
            except Exception:
                L = None       # (the first part alone is not a program: not this history's subject)
    if L is None:
        L = lua.Lua.from_lines([src], version=ambient.VERSION[0])
    elif two_steps:
        FILLED_IN_TWO_STEPS[0] += 1
    args = {}
    if config.startswith('keep_all'):
        args['keep_all_names'] = True
    if 'keep_file' in config:
        # the file is named the ways open() takes a name: a str, the bytes of the name, a path object
        import os
        import pathlib
        KEEP_FILE_ARG[0] += 1
        args['keep_names_from_file'] = (keep_file, os.fsencode(keep_file), pathlib.Path(keep_file), keep_file)[KEEP_FILE_ARG[0] % 4]
    out = b''.join(L.to_lines(writer_cls=lua.LuaMinifyTokenWriter, writer_args=args))
    return L, out


KEEP_FILE_ARG = [0]


def comments_problem(rin, rout):
    """The comments of the output against those of the input: the (at most two) header comments come first, verbatim; whatever else
    is a comment in the output must be one of the input's later comments, verbatim and in order (the statements allow later comments
    to be dropped, they do not require it); anything else means code turned into a comment.  -> problem text or None"""
    hdr = header_comments(rin)[:2]
    cin = [t.raw for t in rin if t.kind == 'comment']
    cout = [t.raw for t in rout if t.kind == 'comment']
    for k, h in enumerate(hdr):
        if k >= len(cout) or cout[k] != h.raw:
            return 'header comment %d is %s in the output (%r)' % (k + 1, 'missing' if k >= len(cout) else 'changed', h.raw[:40])
    # the header comments are the first comments of the input
    later = iter(cin[len(hdr):])
    for c in cout[len(hdr):]:
        if not any(c == x for x in later):
            return 'output contains the comment %r, which is not one of the input\'s later comments in order' % (c[:40],)
    return None


def header_comments(toks):
    """The comments that precede any code (reference tokens)."""
    out = []
    for t in toks:
        if t.sig:
            break
        if t.kind == 'comment':
            out.append(t)
    return out


def align(src, out, scopes=None):
    """Align input and luamin output.  -> (problem or None, name_pairs, info)

    problem: (where, description, (tokA, tokB)) for the first departure from C01's oracle."""
    rin = reflex.lex(src)
    sin = [t for t in rin if t.sig]
    rout, err = reflex.try_lex(out)
    if err is not None:
        return ('lex', 'luamin output does not lex: %s' % err, None), [], {}
    sout = [t for t in rout if t.sig]
    pairs = []
    n = min(len(sin), len(sout))
    for i in range(n):
        a, b = sin[i], sout[i]
        prev = (sin[i - 1], a) if i else (None, a)
        if a.kind != b.kind:
            return ('token', 'token %d: %s %r became %s %r' % (i, a.kind, a.raw[:30], b.kind, b.raw[:30]), prev), pairs, {}
        if a.kind in ('keyword', 'symbol'):
            if a.raw != b.raw:
                return ('token', 'token %d: %r became %r' % (i, a.raw, b.raw), prev), pairs, {}
        elif a.kind == 'number':
            if a.value != b.value:
                return ('token', 'token %d: number %r (%s) became %r (%s)' % (i, a.raw, a.value, b.raw, b.value), prev), pairs, {}
        elif a.kind == 'string':
            if a.value != b.value:
                return ('token', 'token %d: string %r became %r' % (i, a.raw[:40], b.raw[:40]), prev), pairs, {}
        else:
            if (a.raw == b'?') != (b.raw == b'?'):
                # `?` is the print shorthand, a line-scoped construct of its own, not an identifier that could be renamed
                return ('token', 'token %d: %r became %r' % (i, a.raw[:30], b.raw[:30]), prev), pairs, {}
            pairs.append((a.raw, b.raw))
    if len(sin) != len(sout):
        i = n
        extra = sin[i] if len(sin) > n else sout[i]
        prev = (sin[i - 1] if i else None, sin[i] if i < len(sin) else None)
        return ('count', 'output has %d significant tokens, input %d (first unmatched: %r)' % (
            len(sout), len(sin), extra.raw[:30]), prev), pairs, {}
    # comments in the output: only the (at most two) header comments, at the top
    hdr = header_comments(rin)[:2]
    cp = comments_problem(rin, rout)
    if cp:
        return ('comment', cp, None), pairs, {}
    # line scopes
    if scopes:
        for (i, j, kind) in scopes:
            if kind == 'tight':
                continue
            first, last = sout[i], sout[j]
            if last.line + last.raw.count(b'\n') != first.line:
                return ('scope', 'line-scoped construct starting at token %d (%r) is split over lines' % (i, sin[i].raw), None), pairs, {}
            if kind is True and j + 1 < len(sout) and sout[j + 1].line == first.line:
                return ('scope', 'token %r joined the line of the line-scoped construct that ended before it' % (sout[j + 1].raw[:20],),
                        (sin[j], sin[j + 1])), pairs, {}
    return None, pairs, {'nsig': len(sin), 'header': hdr, 'rout': rout}


def write_keep_file(path, names, rng):
    lines = []
    for n in names:
        if rng.random() < 0.15:
            lines.append(b'# a comment line')
        if rng.random() < 0.15:
            lines.append(b'')
        lines.append(rng.choice((b'', b'  ')) + n + rng.choice((b'', b' ', b'\t')))
    with open(path, 'wb') as fh:
        fh.write(b'\n'.join(lines) + (b'\n' if rng.random() < 0.8 else b''))


def stats_cli(path):
    """`p8tool stats cart` -> {'lines': [...], 'tokens': int, 'chars': int} parsed from what the command prints."""
    import io
    import re
    from pico8 import tool, util
    buf = io.StringIO()
    saved = (util._write_stream, util._verbosity)
    util._write_stream = buf
    util.set_verbosity(util.VERBOSITY_NORMAL)
    try:
        rcode = tool.main(['stats', path])
    finally:
        util._write_stream, util._verbosity = saved
    text = buf.getvalue()
    m = re.search(r'^- tokens: (\d+)$', text, re.M)
    c = re.search(r'^- chars: (\d+)$', text, re.M)
    return {'rcode': rcode, 'text': text, 'lines': text.splitlines(), 'tokens': int(m.group(1)) if m else None,
            'chars': int(c.group(1)) if c else None}
