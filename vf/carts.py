"""Helpers that build picotool Game objects through the public API and read them back."""
from .refcodec import REGIONS, REGION_SIZES


def make_game(regions, code=b'', version=8, label=None, code_lines=None):
    from pico8.game.game import Game
    from pico8.lua.lua import Lua
    from pico8.gfx.gfx import Gfx
    from pico8.gff.gff import Gff
    from pico8.map.map import Map
    from pico8.sfx.sfx import Sfx
    from pico8.music.music import Music
    g = Game(filename=None)
    g.version = version
    g.lua = Lua.from_lines(code_lines if code_lines is not None else [code], version=version)
    g.gfx = Gfx.from_bytes(regions['gfx'], version=version)
    g.gff = Gff.from_bytes(regions['gff'], version=version)
    g.map = Map.from_bytes(regions['map'], version=version, gfx=g.gfx)
    g.sfx = Sfx.from_bytes(regions['sfx'], version=version)
    g.music = Music.from_bytes(regions['music'], version=version)
    g.label = Gfx.from_bytes(label, version=version) if label is not None else None
    return g


def game_regions(g):
    return {n: bytes(getattr(g, n).to_bytes()) for n, _ in REGIONS}


def game_memory(g):
    r = game_regions(g)
    return b''.join(r[n] for n, _ in REGIONS)


def random_bytes(rng, n):
    return rng.getrandbits(8 * n).to_bytes(n, 'little') if n else b''


def defaultish_regions(rng):
    """Regions that look like what PICO-8 itself leaves in barely used carts: per sfx pattern a header from a small set
    (unused 00 10 00 00, 00 01 00 00, all zero, ...) with or without notes, per music pattern the default silent channels
    41 42 43 44 or variations, mostly-zero gfx/map/gff.  'Special' lines a reader or writer may short-cut live here."""
    sfx = bytearray()
    for i in range(64):
        hdr = rng.choice(((0, 16, 0, 0), (0, 16, 0, 0), (0, 1, 0, 0), (0, 0, 0, 0), (1, 16, 0, 0), (0, 16, 0, 32), (0, 32, 4, 8),
                          (rng.randrange(256), rng.randrange(256), rng.randrange(64), rng.randrange(64))))
        r = rng.random()
        if r < 0.6:
            notes = bytes(64)
        elif r < 0.8:
            notes = bytearray(64)
            k = rng.randrange(32)
            notes[k * 2:k * 2 + 2] = random_bytes(rng, 2)
            notes = bytes(notes)
        else:
            notes = random_bytes(rng, 64)
        sfx += notes + bytes(hdr)
    music = bytearray()
    for i in range(64):
        r = rng.random()
        if r < 0.5:
            pat = [0x41, 0x42, 0x43, 0x44]
        elif r < 0.7:
            pat = [rng.randrange(64), 0x42, 0x43, 0x44]
        elif r < 0.85:
            pat = [rng.choice((0x40, 0x41, 0x45, 0x7f, rng.randrange(128))) for _ in range(4)]
        else:
            pat = [rng.randrange(256) for _ in range(4)]
        if rng.random() < 0.2:
            pat[rng.randrange(3)] |= 0x80
        music += bytes(pat)
    out = {'sfx': bytes(sfx), 'music': bytes(music)}
    for n, sz in (('gfx', 8192), ('map', 4096), ('gff', 256)):
        b = bytearray(sz)
        if rng.random() < 0.6:
            for _ in range(rng.randint(1, 20)):
                b[rng.randrange(sz)] = rng.randrange(256)
        out[n] = bytes(b)
    return out


def random_regions(rng, mode=None):
    """mode: 'uniform' | 'sparse' | 'zero' | 'ff' | 'structured' (random if None)."""
    mode = mode or rng.choice(('uniform', 'uniform', 'sparse', 'structured', 'zero', 'ff', 'defaultish', 'defaultish'))
    if mode == 'defaultish':
        return defaultish_regions(rng), mode
    out = {}
    for n, _ in REGIONS:
        sz = REGION_SIZES[n]
        if mode == 'uniform':
            out[n] = random_bytes(rng, sz)
        elif mode == 'zero':
            out[n] = bytes(sz)
        elif mode == 'ff':
            out[n] = b'\xff' * sz
        elif mode == 'sparse':
            b = bytearray(sz)
            for _ in range(rng.randint(1, 12)):
                b[rng.randrange(sz)] = rng.choice((1, 0x80, 0x0f, 0xf0, 0xff, rng.randrange(256)))
            # always hit first / last byte classes sometimes
            if rng.random() < 0.5:
                b[0] = rng.randrange(1, 256)
            if rng.random() < 0.5:
                b[-1] = rng.randrange(1, 256)
            out[n] = bytes(b)
        else:  # structured: runs and ramps
            b = bytearray(sz)
            pos = 0
            while pos < sz:
                ln = rng.randint(1, 300)
                v = rng.randrange(256)
                step = rng.choice((0, 0, 1, 17))
                for k in range(pos, min(sz, pos + ln)):
                    b[k] = (v + step * (k - pos)) & 255
                pos += ln
            out[n] = bytes(b)
    return out, mode


# ---------------------------------------------------------------------------
# small generator of valid, line-oriented PICO-8 Lua (for codec workloads; the grammar-directed
# generator for the language-level checks lives in vf/progen.py)

_NAMES = [b'x', b'y', b'i', b'player', b'enemies', b't', b'score', b'dx', b'dy', b'lives', b'_update60', b'cam']
_CALLS = [b'print', b'spr', b'rectfill', b'add', b'flr', b'rnd', b'btn', b'sfx', b'cls']


def simple_lua(rng, nbytes, glyphs=False, update60=None):
    out = []
    size = 0
    depth = 0
    while size < nbytes:
        r = rng.random()
        ind = b' ' * depth
        if r < 0.35:
            ln = ind + rng.choice(_NAMES[:10]) + b'=' + rng.choice((b'%d' % rng.randrange(300), rng.choice(_NAMES[:10]) + b'+1',
                                                                   b'"s%d"' % rng.randrange(99), b'{1,2,%d}' % rng.randrange(9)))
        elif r < 0.6:
            ln = ind + rng.choice(_CALLS) + b'(' + rng.choice(_NAMES[:10]) + b',%d)' % rng.randrange(128)
        elif r < 0.7 and depth < 3:
            ln = ind + rng.choice((b'if ' + rng.choice(_NAMES[:10]) + b'>%d then' % rng.randrange(9),
                                   b'for i=1,%d do' % rng.randrange(1, 20), b'function f%d(a,b)' % rng.randrange(50)))
            depth += 1
        elif r < 0.8 and depth > 0:
            depth -= 1
            ln = b' ' * depth + b'end'
        elif r < 0.9:
            c = b'-- ' + bytes(rng.choice(b'abcdefgh tuvwxyzABC012') for _ in range(rng.randint(0, 30)))
            if glyphs:
                c += bytes(rng.choice(range(128, 256)) for _ in range(rng.randint(0, 6)))
            ln = ind + c
        else:
            ln = b''
        out.append(ln + b'\n')
        size += len(ln) + 1
    while depth > 0:
        depth -= 1
        out.append(b' ' * depth + b'end\n')
    code = b''.join(out)
    if update60 == 'start':
        code = b'function _update60()\n end\n' + code
    elif update60 == 'middle':
        k = len(out) // 2
        code = b''.join(out[:k]) + b'if(_update60) x=1\n' + b''.join(out[k:])
    elif update60 == 'end':
        code = code + b'_update60()\n'
    return code


_SPICE = (b'cfg=defaults{speed=2,name="n"}', b'log"hello"', b'obj:draw{1,2}', b'setmetatable(cls,{__index=base})', b'?"score"',
          b'-- \x10\x11\x12\x13\x14\x15\x16\x17\x18\x19\x1a\x1b\x1c\x1d\x1e\x1f\x7f glyphs below 0x80',
          b'glyphs=[[\x10\x18\x1f\x7f\x80\x8e\xff]]', b'-- \x8b\x91\x94\x83\x8e\x97 buttons', b'if (x>1) y=2 else y=3', b'x+=1',
          b'a,b=b,a', b'local t={[1]=2;3,k="v",}', b'local function helper(...) return ... end', b'str=[==[ ]] ]=] ]==]',
          b't.a.b:c(1)(2)[3]="x"', b'x=1 // a C-style comment', b'y=x\\2^^3>><1', b'z=@0x5f00+%0x5f02+$0x5f04', b'x=0x1f.8+0b101.1+1e3',
          b'-- if(_update60)_update=function()', b'n=#t..""', b'f=function(a,...) local b=a end', b'do local q=1 end',
          # text that means something to template / formatting languages means nothing here
          b'local levels={map}', b'-- {gfx} {label} {lua} {version} {sfx} {music} {gff} {code}', b'fmt="%s %d {0} {} $x ${y} %(z)s \\\\1 \\\\g<0>"',
          b'tpl=[[<%= x %> {{y}} #{z}]]',
          # (a goto label is a name: glyphs included)
          b'::lbl\x8e\x97:: i+=1 if (i<3) goto lbl\x8e\x97', b'::\x80:: ::top\xff_1::',
          b'repeat i+=1 until i>3', b'for k,v in pairs(t) do print(k) end', b'--[[ block\tcomment ]] x=1')


def varied_lua(rng, nbytes, update60=None):
    """simple_lua plus one-line statements in the forms a cart really uses: calls without parentheses (f{...}, f"..", o:m{...}), the `?`
    shorthand, short-if/while, compound assignment, PICO-8 operators, long strings, `//` comments, and every glyph below 0x80 (codes 16-31,
    127) and above it in comments and long strings (which every writer copies verbatim)."""
    base = simple_lua(rng, nbytes, update60=update60)
    lines = base.split(b'\n')
    k = max(1, nbytes // 60)
    for _ in range(k):
        pos = rng.randrange(len(lines))
        ind = lines[pos][:len(lines[pos]) - len(lines[pos].lstrip(b' '))] if pos < len(lines) else b''
        lines.insert(pos, ind + rng.choice(_SPICE))
    return b'\n'.join(lines)


def incompressible(rng, n, prefix=b'--'):
    """n bytes of lexable text that `:c:` cannot shrink: a comment of random non-table bytes."""
    pool = bytes(b for b in range(33, 256) if b not in b'\n\r' and bytes([b]) not in
                 [bytes([c]) for c in b'0123456789abcdefghijklmnopqrstuvwxyz!#%(){}[]<>+=/*:;.,~_ '])
    body = bytes(rng.choice(pool) for _ in range(max(0, n - len(prefix))))
    return (prefix + body)[:n]


def edge_text(rng, stream_len):
    """A one-line comment whose `:c:` stream, as a greedy longest-match encoder builds it, has exactly stream_len bytes, and which is longer
    than that (so the compressed form is the one that gets stored): `--`, then characters outside the one-byte table with no 3-character
    repeat (two bytes each), then 500 copies of a 17-character block taken from that text (two bytes each), then at most one table
    character.  The caller verifies the size with the reference encoder."""
    table = b'\n 0123456789abcdefghijklmnopqrstuvwxyz!#%(){}[]<>+=/*:;.,~_'
    pool = bytes(b for b in range(33, 256) if b not in table and b not in b'\r\\')
    r = 500
    tail = (stream_len - 2 * r) % 2
    n = (stream_len - 2 * r - tail) // 2 - 2
    while True:
        out = bytearray(b'--')
        seen = set()
        while len(out) < n + 2:
            c = rng.choice(pool)
            if len(out) >= 2:
                g = (out[-2], out[-1], c)
                if g in seen or (len(out) == 2 and c == 91):
                    continue
                seen.add(g)
            out.append(c)
        block = bytes(out[-40:-23])
        g = (out[-2], out[-1], block[0])
        if g in seen:
            continue
        return bytes(out) + block * r + (b'q' if tail else b'')


def bytes_lua(rng, nlines=12, crlf=False):
    """Valid Lua lines that carry arbitrary P8SCII bytes in comments, quoted strings, long strings and identifiers.

    Avoids (a) lines that read as a .p8 `__section__` header, (b) numeric-escape spellings (C06 owns those):
    bytes 0, 14, 15 inside quoted strings are never followed by a digit."""
    eol = b'\r\n' if crlf else b'\n'
    out = []
    for _ in range(nlines):
        k = rng.randrange(5)
        if k == 0:
            body = bytes(rng.choice([b for b in range(256) if b not in (10, 13)]) for _ in range(rng.randint(0, 40)))
            if body[:1] == b'[':
                body = b' ' + body      # `--[[` / `--[=[` would open a block comment
            out.append(b'--' + body)
        elif k == 1:
            q = rng.choice(b'"\'')
            s = bytearray()
            prev_special = False
            for _ in range(rng.randint(0, 40)):
                b = rng.randrange(256)
                if prev_special and 48 <= b <= 57:
                    b = 65
                if b == q or b == 92:
                    s += bytes((92, b))
                elif b == 10:
                    s += b'\\n'
                elif b == 13:
                    s += b'\\r'
                else:
                    s.append(b)
                prev_special = b in (0, 14, 15)
            out.append(b's=' + bytes((q,)) + bytes(s) + bytes((q,)))
        elif k == 2:
            body = bytes(rng.choice([b for b in range(256) if b not in (93, 13, 10)]) for _ in range(rng.randint(0, 30)))
            lvl = b'=' * rng.randrange(3)
            out.append(b't=[' + lvl + b'[' + body + b']' + lvl + b']')
        elif k == 3:
            name = bytes(rng.choice(range(128, 256)) for _ in range(rng.randint(1, 4))) + rng.choice((b'', b'x', b'_1'))
            out.append(name + b'=' + b'%d' % rng.randrange(100))
        else:
            out.append(rng.choice(_NAMES[:10]) + b'=' + rng.choice(_CALLS) + b'(%d)' % rng.randrange(99))
    return eol.join(out) + eol


def one_line(rng):
    """One complete single-line statement (with its line break)."""
    return (rng.choice(_NAMES[:10]) + b'=' + rng.choice((b'%d' % rng.randrange(300), rng.choice(_CALLS) + b'(%d)' % rng.randrange(99),
                                                       b'"s%d"' % rng.randrange(99), b'{1,2}'))) + b'\n'


CART_BASENAMES = ('cart', 'demo-0.1', 'jelpi.v2', 'hero.sprites', 'my game', 'UPPER_case', 'x.p8.old', 'a.lua.b', 'v1.2.3-final', '.hidden',
                  'näme', 'trailing.dot.')


def cart_basename(i):
    """File base names that are legal but not plain: extra dots, digits, spaces, text that looks like an extension, a leading dot,
    non-ASCII characters.  The extension proper is appended by the caller."""
    import sys
    name = CART_BASENAMES[i % len(CART_BASENAMES)]
    if not name.isascii() and sys.getfilesystemencoding().lower().replace('-', '') != 'utf8':
        return 'name'      # (where file names are ASCII, so are these)
    return name
