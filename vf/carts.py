"""Helpers that build picotool Game objects through the public API and read them back."""
from .refcodec import REGIONS, REGION_SIZES


def make_game(regions, code=b'', version=8, label=None, code_lines=None):
    from pico8.game.game import Game
    from pico8.lua.lua import Lua
    from pico8.gfx.gfx import Gfx
    from pico8.gff.gff import Gff
    from pico8.map.map import Map
    from pico8.sfx.sfx import Sfx
    from pico8.music.music import Music
    g = Game(filename=None)
    g.version = version
    g.lua = Lua.from_lines(code_lines if code_lines is not None else [code], version=version)
    g.gfx = Gfx.from_bytes(regions['gfx'], version=version)
    g.gff = Gff.from_bytes(regions['gff'], version=version)
    g.map = Map.from_bytes(regions['map'], version=version, gfx=g.gfx)
    g.sfx = Sfx.from_bytes(regions['sfx'], version=version)
    g.music = Music.from_bytes(regions['music'], version=version)
    g.label = Gfx.from_bytes(label, version=version) if label is not None else None
    return g


def game_regions(g):
    return {n: bytes(getattr(g, n).to_bytes()) for n, _ in REGIONS}


def game_memory(g):
    r = game_regions(g)
    return b''.join(r[n] for n, _ in REGIONS)


def random_bytes(rng, n):
    return rng.getrandbits(8 * n).to_bytes(n, 'little') if n else b''


def random_regions(rng, mode=None):
    """mode: 'uniform' | 'sparse' | 'zero' | 'ff' | 'structured' (random if None)."""
    mode = mode or rng.choice(('uniform', 'uniform', 'sparse', 'structured', 'zero', 'ff'))
    out = {}
    for n, _ in REGIONS:
        sz = REGION_SIZES[n]
        if mode == 'uniform':
            out[n] = random_bytes(rng, sz)
        elif mode == 'zero':
            out[n] = bytes(sz)
        elif mode == 'ff':
            out[n] = b'\xff' * sz
        elif mode == 'sparse':
            b = bytearray(sz)
            for _ in range(rng.randint(1, 12)):
                b[rng.randrange(sz)] = rng.choice((1, 0x80, 0x0f, 0xf0, 0xff, rng.randrange(256)))
            # always hit first / last byte classes sometimes
            if rng.random() < 0.5:
                b[0] = rng.randrange(1, 256)
            if rng.random() < 0.5:
                b[-1] = rng.randrange(1, 256)
            out[n] = bytes(b)
        else:  # structured: runs and ramps
            b = bytearray(sz)
            pos = 0
            while pos < sz:
                ln = rng.randint(1, 300)
                v = rng.randrange(256)
                step = rng.choice((0, 0, 1, 17))
                for k in range(pos, min(sz, pos + ln)):
                    b[k] = (v + step * (k - pos)) & 255
                pos += ln
            out[n] = bytes(b)
    return out, mode
