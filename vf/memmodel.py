"""Shadow cart memory: a plain model of the documented accessor semantics.

Never imports pico8.  0x4300 bytes laid out gfx|map|gff|music|sfx as in the PICO-8 memory map.
Every method mirrors one documented library accessor and returns what that accessor must return.
"""
from .refcodec import GFX, MAP, GFF, MUSIC, SFX, REGIONS, DATA_END

TRANSPARENT = 16


class Shadow:
    def __init__(self, mem):
        assert len(mem) == DATA_END
        self.mem = bytearray(mem)

    def region(self, name):
        a, b = dict(REGIONS)[name]
        return bytes(self.mem[a:b])

    # --- raw writes (C18) -------------------------------------------------
    def write(self, data, addr):
        if addr + len(data) > DATA_END:
            raise ValueError('past 0x4300')
        self.mem[addr:addr + len(data)] = data

    # --- gfx --------------------------------------------------------------
    def get_pixel(self, x, y):
        b = self.mem[GFX[0] + y * 64 + x // 2]
        return (b >> 4) if x & 1 else (b & 15)

    def set_pixel(self, x, y, v):
        i = GFX[0] + y * 64 + x // 2
        b = self.mem[i]
        self.mem[i] = (b & 0x0f) | (v << 4) if x & 1 else (b & 0xf0) | v

    def get_sprite(self, id, tw=1, th=1):
        x0, y0 = (id % 16) * 8, (id // 16) * 8
        rows = []
        for y in range(y0, y0 + th * 8):
            row = bytearray()
            for x in range(x0, x0 + tw * 8):
                # off-sheet space is filled tile-wise with zeroes
                row.append(self.get_pixel(x, y) if x < 128 and y < 128 else 0)
            rows.append(row)
        return rows

    def set_sprite(self, id, sprite, xo=0, yo=0):
        x0, y0 = (id % 16) * 8 + xo, (id // 16) * 8 + yo
        for dy, row in enumerate(sprite):
            for dx, v in enumerate(row):
                x, y = x0 + dx, y0 + dy
                if v == TRANSPARENT or x >= 128 or y >= 128:
                    continue
                self.set_pixel(x, y, v)

    # --- map (rows 32..63 live in gfx 0x1000..0x1fff) ----------------------
    def _cell_addr(self, x, y):
        if y < 32:
            return MAP[0] + y * 128 + x
        return GFX[0] + 0x1000 + (y - 32) * 128 + x

    def get_cell(self, x, y):
        return self.mem[self._cell_addr(x, y)]

    def set_cell(self, x, y, v):
        self.mem[self._cell_addr(x, y)] = v

    def get_rect_tiles(self, x, y, w=1, h=1):
        return [bytearray(self.get_cell(tx, ty) if tx < 128 and ty < 64 else 0
                          for tx in range(x, x + w)) for ty in range(y, y + h)]

    def set_rect_tiles(self, rect, x, y):
        for dy, row in enumerate(rect):
            for dx, v in enumerate(row):
                if x + dx < 128 and y + dy < 64:
                    self.set_cell(x + dx, y + dy, v)

    def get_rect_pixels(self, x, y, w=1, h=1):
        out = []
        for trow in self.get_rect_tiles(x, y, w, h):
            rows = [bytearray() for _ in range(8)]
            for tid in trow:
                spr = [bytearray(8)] * 8 if tid == 0 else self.get_sprite(tid)
                for i in range(8):
                    rows[i].extend(spr[i])
            out.extend(rows)
        return out

    # --- gff ----------------------------------------------------------------
    def get_flags(self, id, flags):
        return self.mem[GFF[0] + id] & flags

    def set_flags(self, id, flags):
        self.mem[GFF[0] + id] |= flags & 255

    def clear_flags(self, id, flags):
        self.mem[GFF[0] + id] &= ~flags & 255

    def reset_flags(self, id, flags):
        self.mem[GFF[0] + id] = flags & 255

    # --- sfx: 64 x (32 note words LE | editor_mode, duration, loop_start, loop_end)
    def _note_word(self, id, n):
        i = SFX[0] + id * 68 + n * 2
        return self.mem[i] | (self.mem[i + 1] << 8)

    def get_note(self, id, n):
        w = self._note_word(id, n)
        return (w & 0x3f, ((w >> 6) & 7) | ((w >> 15) << 3), (w >> 9) & 7, (w >> 12) & 7)

    def set_note(self, id, n, pitch=None, waveform=None, volume=None, effect=None):
        w = self._note_word(id, n)
        if pitch is not None:
            w = (w & ~0x3f) | pitch
        if waveform is not None:
            w = (w & ~(0x1c0 | 0x8000)) | ((waveform & 7) << 6) | ((waveform >> 3) << 15)
        if volume is not None:
            w = (w & ~0xe00) | (volume << 9)
        if effect is not None:
            w = (w & ~0x7000) | (effect << 12)
        i = SFX[0] + id * 68 + n * 2
        self.mem[i] = w & 255
        self.mem[i + 1] = (w >> 8) & 255

    def get_sfx_properties(self, id):
        i = SFX[0] + id * 68 + 64
        return tuple(self.mem[i:i + 4])

    def set_sfx_properties(self, id, editor_mode=None, note_duration=None, loop_start=None, loop_end=None):
        i = SFX[0] + id * 68 + 64
        for k, v in enumerate((editor_mode, note_duration, loop_start, loop_end)):
            if v is not None:
                self.mem[i + k] = v

    # --- music: 64 x 4 channel bytes; bit 7 of channels 0,1,2 = begin,end,stop; bit 6 = silent
    def get_channel(self, id, ch):
        v = self.mem[MUSIC[0] + id * 4 + ch] & 0x7f
        return None if v & 0x40 else v

    def set_channel(self, id, ch, pattern, actual_byte=None):
        i = MUSIC[0] + id * 4 + ch
        if pattern is None:
            # documented: "None to set the channel to silent".  Silent = bit 6 set; the low six
            # bits of a silent channel carry no meaning, so the shadow adopts whatever the
            # implementation stored there (actual_byte) once bit 7 / bit 6 have been checked.
            low = (actual_byte & 0x3f) if actual_byte is not None else 0
            self.mem[i] = (self.mem[i] & 0x80) | 0x40 | low
        else:
            self.mem[i] = (self.mem[i] & 0x80) | pattern

    def get_music_properties(self, id):
        i = MUSIC[0] + id * 4
        return tuple(bool(self.mem[i + k] & 0x80) for k in range(3))

    def set_music_properties(self, id, begin=None, end=None, stop=None):
        i = MUSIC[0] + id * 4
        for k, v in enumerate((begin, end, stop)):
            if v is not None:
                self.mem[i + k] = (self.mem[i + k] & 0x7f) | (0x80 if v else 0)
