"""PROGRAM GENERATOR — grammar-directed generator for the PICO-8 Lua dialect of DESIGN.md Appendix A.

Never imports pico8.  gen_program(rng, ...) returns a Program with
   toks     significant tokens [(kind, raw)] in order
   tree     the expected tree in picotool's public node vocabulary (DESIGN Appendix B normal form)
   scopes   [(i, j, must_end_line)]: tokens i..j stay on one physical line; if must_end_line a line break
            (or end of input) follows token j
   stmts    token indices at which a statement starts (layout hint)
   feats    set of feature tags (coverage matrices, known-finding classification)
   names    indices of identifier tokens
"""

KEYWORDS = (b'and break do else elseif end false for function goto if in local nil not or repeat '
            b'return then true until while').split()
BINOPS = [b'+', b'-', b'*', b'/', b'%', b'^', b'..', b'<', b'>', b'<=', b'>=', b'==', b'~=', b'!=', b'and', b'or',
          b'&', b'|', b'^^', b'<<', b'>>', b'>>>', b'<<>', b'>><', b'\\']
UNOPS = [b'-', b'not', b'#', b'~', b'@', b'%', b'$']
ASSIGNOPS = [b'=', b'+=', b'-=', b'*=', b'/=', b'%=', b'..=']

from . import reflex

PLAIN_NAMES = [b'x', b'y', b'i', b'j', b'player', b'enemies', b'score', b't', b'dx', b'dy', b'cam', b'_x', b'v2', b'Obj',
               b'hp', b'pos', b'vel', b'state', b'timer', b'idx', b'foo', b'bar', b'baz', b'q9']
KW_NAMES = [b'endx', b'do_it', b'iffy', b'nots', b'android', b'forx', b'inn', b'_end', b'orb', b'nilx', b'truely',
            b'xend', b'xif', b'breaker', b'returns', b'localx', b'untill', b'whiles', b'thenx', b'elsee', b'gotox',
            b'functions', b'repeats', b'falsey', b'elseiff',
            # identifiers that differ from a reserved word only in case (Lua is case-sensitive)
            b'End', b'IF', b'Not', b'OR', b'In', b'Do', b'True', b'Nil', b'Function', b'THEN', b'Else',
            # identifiers that are words of the cart file format and of picotool's own directives
            b'include', b'version', b'pico', b'cartridge', b'lua', b'gfx', b'label',
            # names that mean something to Lua's runtime, not to its grammar
            b'_ENV', b'_G', b'self', b'arg']
GLYPH_NAMES = [b'\x80', b'\x8e\x97', b'x\x99', b'\xe3\x81', b'a\x80b', b'\xff\xfe', b'_\x85',
               # a reserved word directly followed by a glyph is one name
               b'in\x8b', b'end\x97', b'or\xff', b'do\x8e', b'if\x80', b'not\x94']
BUILTIN_NAMES = [b'print', b'spr', b'btn', b'rnd', b'flr', b'add', b'del', b'sin', b'cos', b'mid', b'_init', b'_update',
                 b'_draw', b'sfx', b'pset', b'max', b'min', b'abs', b'cls', b'map']
SHORT_NAMES = [b'a', b'b', b'c', b'ba', b'bb', b'z', b'aa']

NUM_FORMS = {
    'int': [b'0', b'1', b'12', b'255', b'32767'],
    'frac': [b'3.25', b'0.5', b'12.0625'],
    'trail-dot': [b'3.', b'0.'],
    'lead-dot': [b'.5', b'.125'],
    'exp': [b'1e5', b'2E3', b'1.5e2'],
    'exp-minus': [b'1e-5', b'25E-2'],
    'exp-plus': [b'1e+5', b'2E+1'],
    'hex': [b'0x1f', b'0xff', b'0x0'],
    'hex-upper': [b'0X1F', b'0XA'],
    'hex-frac': [b'0x1.8', b'0xa.c'],
    'hex-lead-dot': [b'0x.8'],
    'bin': [b'0b101', b'0b0'],
    'bin-upper': [b'0B1', b'0B11'],
    'bin-frac': [b'0b1.1'],
    'bin-lead-dot': [b'0b.1'],
}


def gen_numerals():
    """Deterministic numeral population: decimal mantissas (leading/trailing zeros, bare dots) x exponents (zeros at either end,
    both signs, both cases), hex and binary with zero padding on either side of the point."""
    seen = set()
    mants = [b'0', b'1', b'10', b'100', b'007', b'0.5', b'0.50', b'2.0', b'100.00', b'1.', b'10.', b'.5', b'.50', b'1.5', b'2.50', b'0.0',
             b'00.10', b'12.0625', b'3.25', b'.125', b'32767']
    exps = [b'', b'e0', b'e1', b'e2', b'e10', b'E10', b'e-1', b'e-2', b'e-10', b'e-20', b'e+0', b'e+1', b'E+10', b'e00', b'e01', b'e-01',
            b'e+02']
    for m in mants:
        for e in exps:
            seen.add(m + e)
    for pre in (b'0x', b'0X'):
        for body in (b'0', b'f', b'0f', b'f0', b'10', b'00ff', b'1.8', b'1.80', b'01.08', b'.8', b'.80', b'a.c', b'A.C', b'0.0', b'7fff',
                     b'7fff.ffff', b'e1', b'1e1', b'1.e1'):
            seen.add(pre + body)
    for pre in (b'0b', b'0B'):
        for body in (b'0', b'1', b'10', b'01', b'1.1', b'1.10', b'01.01', b'.1', b'.10', b'0.0', b'1010.0101'):
            seen.add(pre + body)
    return sorted(n for n in seen if reflex.try_lex(n)[1] is None and len(reflex.lex(n)) == 1)


def rand_numeral(rng):
    """A random numeral from the reference numeral grammar (values small enough for exact comparison as fractions)."""
    k = rng.random()
    dig = lambda n, alpha=b'0123456789': bytes(rng.choice(alpha) for _ in range(n))
    if k < 0.6:
        ip = dig(rng.choice((0, 1, 1, 2, 3, 5)))
        fp = dig(rng.choice((0, 0, 1, 2, 4)))
        if rng.random() < 0.3 and fp:
            fp = fp[:-1] + b'0'
        if rng.random() < 0.2 and ip:
            ip = b'0' + ip
        dot = b'.' if (fp or not ip or rng.random() < 0.15) else b''
        if not ip and not fp:
            ip = b'0'
        m = ip + dot + fp
        if rng.random() < 0.4:
            m += rng.choice((b'e', b'E')) + rng.choice((b'', b'', b'-', b'+')) + rng.choice((b'0', b'1', b'2', b'10', b'20', b'01', b'3'))
        return m
    if k < 0.85:
        alpha = b'0123456789abcdefABCDEF'
        ip = dig(rng.choice((0, 1, 2, 4)), alpha)
        fp = dig(rng.choice((0, 0, 1, 2, 4)), alpha)
        if not ip and not fp:
            ip = b'0'
        return rng.choice((b'0x', b'0X')) + ip + (b'.' + fp if fp else b'')
    ip = dig(rng.choice((0, 1, 3, 8)), b'01')
    fp = dig(rng.choice((0, 0, 1, 3)), b'01')
    if not ip and not fp:
        ip = b'1'
    return rng.choice((b'0b', b'0B')) + ip + (b'.' + fp if fp else b'')


# forms on which picotool's lexer is known/suspected to diverge (enabled explicitly)
EXOTIC_NUM = ('exp-plus', 'hex-upper', 'hex-lead-dot', 'bin-upper', 'bin-lead-dot')

DEFAULT_OPTS = {
    'depth': 3,
    'exotic_numbers': False,     # forms in EXOTIC_NUM
    'exotic_strings': False,     # \xhh, \ddd followed by digits, \z, long string starting with a line break
    'multiline_strings': True,   # long strings containing line breaks (never inside a line scope)
    'paren_op_prefix': False,    # (a or b)(x), (-a)[1]: operator expression as call/index target
    'nested_short_if': False,    # short-if inside a short-if line
    'short_if': True,
    'qprint': True,
    'goto': True,
    'glyph_names': True,
    'max_stmts': 6,
    'names_extra': None,         # extra identifier pool (C02: thousands of names)
    'vararg_main': True,
    'top_stmts': None,           # number of statements of the outermost block (big programs)
    'stat_bias': None,           # statement kinds given extra weight, e.g. ['shortif'] * 20
    'if_do': True,               # `if (cond) do` + line break in place of `then` (accepted by picotool on purpose)
    'table_methods': 0.0,        # probability that a table field is `name=function ... end` whose body is block; line-scoped; plain
}


class Program:
    def __init__(self):
        self.toks = []
        self.scopes = []
        self.stmts = []
        self.feats = set()
        self.names = []
        self.closers = []
        self.must_break = set()   # gaps (index of the token after them) that have to hold a line break
        self.tree = None


def str_token(rng, feats, opts, allow_multiline):
    """-> (raw, value).  Quoted strings with every plain escape form, long brackets level 0-3."""
    k = rng.random()
    if k < 0.22:
        lvl = rng.choice((0, 0, 1, 2, 3))
        eq = b'=' * lvl
        body = bytearray()
        for _ in range(rng.randint(0, 12)):
            r = rng.random()
            if r < 0.1 and allow_multiline and opts['multiline_strings']:
                body += b'\n'
                feats.add('str:long-multiline')
            elif r < 0.2:
                body += rng.choice((b']', b']]', b']=]', b'[[', b'--', b'"', b'\\n'))
            elif r < 0.3:
                body.append(rng.choice(range(128, 256)))
            else:
                body.append(rng.choice(b'abcxyz 0129_+-*/(){}'))
        body = bytes(body)
        close = b']' + eq + b']'
        while close in body or (body + b']').endswith(close[:-1] + b']') and body.endswith(close[:-1]):
            body = body.replace(close, b'')
            if body.endswith(close[:-1]):
                body = body[:-1] + b' '
        if body.startswith(b'\n') or body.startswith(b'\r'):
            if opts['exotic_strings']:
                feats.add('str:long-leading-nl')
            else:
                body = b' ' + body
        feats.add('str:long%d' % lvl)
        val = body
        if body[:1] == b'\n':
            val = body[1:]
        return b'[' + eq + b'[' + body + close, val
    q = rng.choice((34, 39))
    feats.add('str:dq' if q == 34 else 'str:sq')
    raw = bytearray([q])
    val = bytearray()
    if k < 0.27:
        # a message of several lines: mostly `\n`, quotes and backslashes as escapes (a long string would spell it shorter)
        feats.add('str:escape-heavy')
        for _ in range(rng.randint(3, 9)):
            e, v = rng.choice(((b'\\n', 10), (b'\\n', 10), (b'\\n', 10), (b'\\\\', 92), (b'\\"', 34), (b"\\'", 39), (b'\\t', 9)))
            raw += e
            val.append(v)
            w = rng.choice((b'', b'', b'game over', b'x', b'press ', b' ', b']]', b']'))
            raw += w
            val += w
        raw.append(q)
        return bytes(raw), bytes(val)
    n = rng.choice((0, 1, 2, 5, rng.randint(0, 14)))
    for _ in range(n):
        r = rng.random()
        if r < 0.5:
            c = rng.choice(b'abcdefgxyz 0123456789_.,;:!?#()[]{}<>=+-*/%^~&|@$')
            raw.append(c)
            val.append(c)
        elif r < 0.6:
            c = rng.choice([b for b in range(1, 256) if b not in (10, 13, 92, 34, 39)])
            raw.append(c)
            val.append(c)
            feats.add('str:raw-high' if c >= 128 else 'str:raw-ctrl' if c < 32 else 'str:raw')
        elif r < 0.66:
            other = 39 if q == 34 else 34
            raw.append(other)
            val.append(other)
            feats.add('str:other-quote-raw')
        elif r < 0.9:
            e, v = rng.choice(((b'\\n', 10), (b'\\t', 9), (b'\\\\', 92), (b'\\"', 34), (b"\\'", 39), (b'\\a', 7), (b'\\b', 8),
                               (b'\\f', 12), (b'\\r', 13), (b'\\v', 11), (b'\\*', 1), (b'\\#', 2), (b'\\-', 3), (b'\\|', 4),
                               (b'\\+', 5), (b'\\^', 6)))
            raw += e
            val.append(v)
            feats.add('str:esc' + e[1:].decode('latin-1'))
        elif opts['exotic_strings']:
            r2 = rng.random()
            if r2 < 0.4:
                v = rng.randrange(256)
                digs = rng.choice((1, 2, 3))
                s = b'%d' % v
                s = s.rjust(max(digs, len(s)), b'0')[:3] if len(s) <= 3 else s
                raw += b'\\' + s
                val.append(v)
                feats.add('str:decimal-escape-%d' % len(s))
                if rng.random() < 0.5:
                    d = rng.choice(b'0123456789')
                    if len(s) == 3:
                        raw.append(d)
                        val.append(d)
                        feats.add('str:decimal-escape-then-digit')
            elif r2 < 0.75:
                v = rng.randrange(256)
                raw += b'\\x' + (b'%02x' % v if rng.random() < 0.5 else b'%02X' % v)
                val.append(v)
                feats.add('str:hex-escape')
            elif r2 < 0.87:
                # Lua 5.2 `\z`: skips the white space that follows it (line breaks included), adds nothing to the string
                ws = bytearray()
                for _ in range(rng.choice((0, 1, 2, 4))):
                    ws.append(rng.choice(b'  \t\n' if (allow_multiline and opts['multiline_strings']) else b'  \t'))
                raw += b'\\z' + bytes(ws)
                feats.add('str:z-escape')
                if b'\n' in ws:
                    feats.add('str:z-escape-over-line-break')
                if rng.random() < 0.5:
                    break
            else:
                raw += b'\\0'
                val.append(0)
                feats.add('str:nul-escape')
                if rng.random() < 0.5:
                    raw += b'x'
                    val += b'x'
    raw.append(q)
    raw = bytes(raw)
    # the expected value is what the reference grammar decodes from the spelling (a short numeric
    # escape followed by a digit absorbs it), so expectation and spelling cannot drift apart
    from . import reflex
    try:
        return raw, reflex.lex(raw)[0].value
    except reflex.RefLexError:
        # e.g. a short decimal escape that, with the digit that happens to follow, exceeds 255
        return b'"x"', b'x'


WORD_STRINGS = (b'nil', b'true', b'false', b'end', b'function', b'then', b'do', b'...', b'not', b'and', b'or', b'1', b'0x10', b'-1', b'..', b'=', b'--',
                b'//', b'?', b'if', b'local', b'return', b'goto', b'::', b'nil ', b'True', b'NIL')


class Gen:
    def __init__(self, rng, opts=None):
        self.rng = rng
        self.o = dict(DEFAULT_OPTS)
        if opts:
            self.o.update(opts)
        self.p = Program()
        self.in_line = 0        # > 0 while generating inside a line scope
        self.vararg = self.o['vararg_main']
        self.loop = 0
        self.labels = []

    # --- token emission ---------------------------------------------------
    def t(self, kind, raw):
        self.p.toks.append((kind, raw))
        return len(self.p.toks) - 1

    def kw(self, w):
        i = self.t('keyword', w)
        if w in (b'end', b'until', b'else', b'elseif') and not self.in_line:
            self.p.closers.append(i)
        return i

    def sym(self, s):
        return self.t('symbol', s)

    def name(self, pool=None):
        rng = self.rng
        if pool is None:
            r = rng.random()
            if self.o['names_extra'] and r < 0.7:
                n = rng.choice(self.o['names_extra'])
            elif r < 0.45:
                n = rng.choice(PLAIN_NAMES)
            elif r < 0.6:
                n = rng.choice(KW_NAMES)
                self.p.feats.add('name:keyword-affix')
            elif r < 0.72 and self.o['glyph_names']:
                n = rng.choice(GLYPH_NAMES)
                self.p.feats.add('name:glyph')
            elif r < 0.86:
                n = rng.choice(BUILTIN_NAMES)
                self.p.feats.add('name:builtin')
            else:
                n = rng.choice(SHORT_NAMES)
                self.p.feats.add('name:short')
        else:
            n = rng.choice(pool)
        i = self.t('name', n)
        self.p.names.append(i)
        return n

    def op(self, o):
        if o in (b'and', b'or', b'not'):
            self.kw(o)
        else:
            self.sym(o)
        self.p.feats.add('op:' + o.decode())

    # --- expressions ------------------------------------------------------
    def number(self):
        rng = self.rng
        forms = [f for f in NUM_FORMS if self.o['exotic_numbers'] or f not in EXOTIC_NUM]
        f = rng.choice(forms)
        raw = rng.choice(NUM_FORMS[f])
        self.p.feats.add('num:' + f)
        if self.o['exotic_numbers'] and rng.random() < 0.35:
            for _ in range(8):
                cand = rand_numeral(rng)
                t, err = reflex.try_lex(cand)
                if err is None and len(t) == 1 and t[0].kind == 'number':
                    raw = cand
                    self.p.feats.add('num:random')
                    break
        self.t('number', raw)
        return ('num', raw)

    def key_exp(self, d):
        """What stands between index brackets: any expression; now and then a quoted string that spells one of the program's own
        identifiers (t["hp"] next to a variable hp: the string is a string, the identifier an identifier)."""
        if self.p.names and self.rng.random() < 0.2:
            nm = self.p.toks[self.rng.choice(self.p.names)][1]
            if nm.isascii() and nm.isalnum() or nm.replace(b'_', b'').isalnum() and nm.isascii():
                q = self.rng.choice((b'"', b"'"))
                self.t('string', q + nm + q)
                self.p.feats.add('str:index-key-spelling-an-identifier')
                return [('str', nm)]
        return self.exp(d)

    def string(self):
        rng = self.rng
        if rng.random() < 0.06:
            # a string whose text is what a keyword, a value name, an operator or a number looks like (`type(v)=="nil"`)
            val = rng.choice(WORD_STRINGS)
            raw = rng.choice((b'"' + val + b'"', b"'" + val + b"'", b'[[' + val + b']]'))
            self.p.feats.add('str:spells-a-word')
        else:
            raw, val = str_token(rng, self.p.feats, self.o, allow_multiline=not self.in_line)
        self.t('string', raw)
        return ('str', val)

    def exp(self, d):
        rng = self.rng
        flat = self.operand(d)
        nops = rng.choice((0, 0, 0, 1, 1, 2, 3)) if d > 0 else rng.choice((0, 0, 1))
        for _ in range(nops):
            o = rng.choice(BINOPS)
            self.op(o)
            flat.append(('op', o))
            flat += self.operand(d)
        if nops:
            self.p.feats.add('ExpBinOp')
        return flat

    def operand(self, d):
        rng = self.rng
        flat = []
        nun = rng.choice((0, 0, 0, 0, 1, 1, 2))
        for _ in range(nun):
            u = rng.choice(UNOPS)
            self.op(u)
            flat.append(('op', u))
            self.p.feats.add('ExpUnOp')
        flat += self.atom(d)
        return flat

    def atom(self, d):
        """-> flat fragment (a list; longer than 1 only for a bare parenthesised operator expression)."""
        rng = self.rng
        r = rng.random()
        if r < 0.07:
            w = rng.choice((b'nil', b'false', b'true'))
            self.kw(w)
            return [(w.decode(),)]
        if r < 0.27:
            return [self.number()]
        if r < 0.40:
            return [self.string()]
        if r < 0.44 and self.vararg:
            self.sym(b'...')
            self.p.feats.add('VarargDots')
            return [('...',)]
        if r < 0.50 and d > 0 and not self.in_line:
            self.kw(b'function')
            self.p.feats.add('Function')
            return [('Function', self.funcbody(d - 1))]
        if r < 0.58 and d > 0:
            return [self.table(d - 1)]
        return self.prefixexp(d, want='any')

    def simple_atom(self, d):
        """Operand for a parenthesised prefix in the default configuration: never an operator expression or `...`."""
        rng = self.rng
        r = rng.random()
        if r < 0.15:
            w = rng.choice((b'nil', b'false', b'true'))
            self.kw(w)
            return [(w.decode(),)]
        if r < 0.3:
            return [self.number()]
        if r < 0.55:
            return [self.string()]
        if r < 0.65 and d > 0:
            return [self.table(d - 1)]
        return self.prefixexp(d, want='any', paren=False)

    def table(self, d):
        rng = self.rng
        self.sym(b'{')
        self.p.feats.add('TableConstructor')
        fields = []
        n = rng.choice((0, 1, 2, 3, 5))
        for k in range(n):
            r = rng.random()
            if r < 0.25:
                self.sym(b'[')
                ke = self.key_exp(d)
                self.sym(b']')
                self.sym(b'=')
                fields.append(('FieldExpKey', ke, self.exp(d)))
                self.p.feats.add('FieldExpKey')
            elif r < 0.5:
                nm = self.name()
                self.sym(b'=')
                if self.o['table_methods'] and not self.in_line and rng.random() < self.o['table_methods']:
                    self.kw(b'function')
                    force = [rng.choice(('if', 'forstep', 'while', 'do', 'forin')), rng.choice(('shortif', 'qprint', 'compound')),
                             rng.choice(('assign', 'call', 'local'))]
                    fields.append(('FieldNamedKey', nm, [('Function', self.funcbody(1, force=force))]))
                    self.p.feats.add('table-method-with-block-then-line-scope')
                else:
                    fields.append(('FieldNamedKey', nm, self.exp(d)))
                self.p.feats.add('FieldNamedKey')
            else:
                fields.append(('FieldExp', self.exp(d)))
                self.p.feats.add('FieldExp')
            if k < n - 1:
                s = rng.choice((b',', b',', b';'))
                self.sym(s)
                if s == b';':
                    self.p.feats.add('table-semicolon-sep')
            elif rng.random() < 0.3:
                self.sym(rng.choice((b',', b';')))
                self.p.feats.add('table-trailing-sep')
        self.sym(b'}')
        return ('TableConstructor', fields)

    def args(self, d):
        rng = self.rng
        r = rng.random()
        if r < 0.75 or d <= 0:
            self.sym(b'(')
            exps = None
            n = rng.choice((0, 1, 1, 2, 3))
            if n:
                exps = []
                for k in range(n):
                    exps.append(self.exp(d - 1))
                    if k < n - 1:
                        self.sym(b',')
            self.sym(b')')
            self.p.feats.add('args:paren' if n else 'args:empty')
            return ('FunctionArgs', exps)
        if r < 0.88:
            self.p.feats.add('args:string')
            return self.string()
        self.p.feats.add('args:table')
        return self.table(d - 1)

    def prefixexp(self, d, want, paren=None):
        """want: 'any' | 'call' (must end in a call) | 'var' (assignable).  -> flat fragment (list)."""
        rng = self.rng
        if paren is None:
            paren = rng.random() < 0.12 and d > 0
        if paren:
            self.sym(b'(')
            if self.o['paren_op_prefix']:
                inner = self.exp(max(d - 1, 0))
            else:
                inner = self.simple_atom(max(d - 1, 0))
            self.sym(b')')
            cur = inner
            self.p.feats.add('prefix:paren')
        else:
            cur = [('VarName', self.name())]
        nsuf = rng.choice((0, 0, 1, 1, 2, 3)) if d > 0 else rng.choice((0, 0, 1))
        sufs = [rng.choice(('attr', 'index', 'call', 'method')) for _ in range(nsuf)]
        if want == 'call' and (not sufs or sufs[-1] not in ('call', 'method')):
            sufs.append(rng.choice(('call', 'call', 'method')))
        if want == 'var':
            while sufs and sufs[-1] in ('call', 'method'):
                sufs.pop()
            if paren and not sufs:
                sufs.append(rng.choice(('attr', 'index')))
        if paren and sufs:
            # (exp) followed by an index/field/call: the parentheses are not in the exposed tree
            self.p.feats.add('paren-prefix-suffix')
        if paren and sufs and (len(cur) > 1 or cur[0] == ('...',)):
            # the parser hands such a prefix to the writers without its parentheses
            self.p.feats.add('paren-op-prefix')
        for s in sufs:
            if s == 'attr':
                self.sym(b'.')
                cur = [('VarAttribute', cur, self.name())]
                self.p.feats.add('VarAttribute')
            elif s == 'index':
                self.sym(b'[')
                ix = self.key_exp(max(d - 1, 0))
                self.sym(b']')
                cur = [('VarIndex', cur, ix)]
                self.p.feats.add('VarIndex')
            elif s == 'call':
                cur = [('FunctionCall', cur, self.args(d))]
                self.p.feats.add('FunctionCall')
            else:
                self.sym(b':')
                m = self.name()
                cur = [('FunctionCallMethod', cur, m, self.args(d))]
                self.p.feats.add('FunctionCallMethod')
        return cur

    def funcbody(self, d, force=None):
        rng = self.rng
        self.sym(b'(')
        params = None
        dots = False
        n = rng.choice((0, 1, 2, 3))
        if n:
            params = []
            for k in range(n):
                params.append(self.name())
                if k < n - 1:
                    self.sym(b',')
            if rng.random() < 0.2:
                self.sym(b',')
                self.sym(b'...')
                dots = True
        elif rng.random() < 0.2:
            self.sym(b'...')
            dots = True
        self.sym(b')')
        save = (self.vararg, self.loop, self.labels)
        self.vararg, self.loop, self.labels = dots, 0, []
        blk = self.block(d, func=True, force=force)
        self.vararg, self.loop, self.labels = save
        self.kw(b'end')
        if dots:
            self.p.feats.add('funcbody:dots')
        return ('FunctionBody', params, dots, blk)

    # --- statements -------------------------------------------------------
    def block(self, d, func=False, top=False, force=None):
        rng = self.rng
        stats = []
        n = rng.randint(0 if not top else 1, self.o['max_stmts'] if d > 0 else 2)
        if top and self.o['top_stmts']:
            n = self.o['top_stmts']
        for k in (force or ()):
            self.p.stmts.append(len(self.p.toks))
            stats.append(getattr(self, 's_' + k)(d))
        for _ in range(n if not force else 0):
            stats.append(self.stat(d))
            if rng.random() < 0.12:
                self.sym(b';')
                self.p.feats.add('semicolon')
        r = rng.random()
        if r < 0.25 and (func or top or d < self.o['depth']):
            self.p.stmts.append(len(self.p.toks))
            self.kw(b'return')
            exps = None
            k = rng.choice((0, 1, 1, 2))
            if k:
                exps = []
                for j in range(k):
                    exps.append((self.exp(d - 1)))
                    if j < k - 1:
                        self.sym(b',')
            stats.append(('StatReturn', exps))
            self.p.feats.add('StatReturn')
            if rng.random() < 0.2:
                self.sym(b';')
        elif r < 0.32 and self.loop:
            self.p.stmts.append(len(self.p.toks))
            self.kw(b'break')
            stats.append(('StatBreak',))
            self.p.feats.add('StatBreak')
        return ('Chunk', stats)

    def stat(self, d):
        rng = self.rng
        start = len(self.p.toks)
        self.p.stmts.append(start)
        kinds = ['assign', 'assign', 'call', 'call', 'local', 'compound']
        if d > 0:
            kinds += ['do', 'while', 'repeat', 'if', 'if', 'forstep', 'forin', 'function', 'localfunction']
            if self.o['short_if'] and not self.in_line:
                kinds += ['shortif', 'shortif']
        if self.o['qprint'] and not self.in_line:
            kinds.append('qprint')
        if self.o['goto'] and not self.in_line:
            kinds += ['label', 'goto']
        if self.o['stat_bias'] and not self.in_line and d > 0:
            kinds += self.o['stat_bias']
        k = rng.choice(kinds)
        return getattr(self, 's_' + k)(d)

    def _guard_paren(self):
        """A statement may not begin with '(' unless a ';' terminates the previous one."""
        self.sym(b';')
        self.p.feats.add('paren-statement-guard')

    def _var(self, d):
        rng = self.rng
        if rng.random() < 0.08 and d > 0:
            self._guard_paren()
            return self.prefixexp(d, 'var', paren=True)[0]
        return self.prefixexp(d, 'var', paren=False)[0]

    def s_assign(self, d):
        rng = self.rng
        n = rng.choice((1, 1, 1, 2, 3))
        vars_ = []
        for k in range(n):
            if k == 0:
                v = self._var(d - 1 if d > 0 else 0)
            else:
                v = self.prefixexp(d - 1 if d > 0 else 0, 'var', paren=False)[0]
            vars_.append(v)
            if k < n - 1:
                self.sym(b',')
        self.sym(b'=')
        m = rng.choice((1, 1, 2, 3))
        exps = []
        for k in range(m):
            exps.append((self.exp(d - 1)))
            if k < m - 1:
                self.sym(b',')
        self.p.feats.add('StatAssignment')
        return ('StatAssignment', vars_, b'=', exps)

    def s_compound(self, d):
        rng = self.rng
        i0 = len(self.p.toks)
        v = self.prefixexp(0, 'var', paren=False)[0]
        o = rng.choice(ASSIGNOPS[1:])
        self.sym(o)
        self.in_line += 1
        e = (self.exp(min(d, 1) - 1))
        self.in_line -= 1
        if not self.in_line:
            self.p.scopes.append((i0, len(self.p.toks) - 1, True))
        self.p.feats.add('StatAssignment:compound')
        self.p.feats.add('assignop:' + o.decode())
        return ('StatAssignment', [v], o, [e])

    def s_call(self, d):
        rng = self.rng
        if rng.random() < 0.08 and d > 0:
            self._guard_paren()
            c = self.prefixexp(d, 'call', paren=True)[0]
        else:
            c = self.prefixexp(d, 'call', paren=False)[0]
        self.p.feats.add('StatFunctionCall')
        return ('StatFunctionCall', c)

    def s_local(self, d):
        rng = self.rng
        self.kw(b'local')
        n = rng.choice((1, 1, 2, 3))
        names = []
        for k in range(n):
            names.append(self.name())
            if k < n - 1:
                self.sym(b',')
        exps = None
        if rng.random() < 0.75:
            self.sym(b'=')
            exps = []
            m = rng.choice((1, 1, 2))
            for k in range(m):
                exps.append((self.exp(d - 1)))
                if k < m - 1:
                    self.sym(b',')
        self.p.feats.add('StatLocalAssignment')
        return ('StatLocalAssignment', names, exps)

    def s_do(self, d):
        self.kw(b'do')
        b = self.block(d - 1)
        self.kw(b'end')
        self.p.feats.add('StatDo')
        return ('StatDo', b)

    def _head_scope(self, i0, first_tok_index):
        """PICO-8's preprocessor reads `if (`/`while (` heads line-wise: keep the head on one line when the
        condition starts with '('."""
        if self.p.toks[first_tok_index][1] == b'(' and not self.in_line:
            self.p.scopes.append((i0, len(self.p.toks) - 1, False))

    def s_while(self, d):
        i0 = len(self.p.toks)
        self.kw(b'while')
        e = (self.exp(d - 1))
        self.kw(b'do')
        self._head_scope(i0, i0 + 1)
        self.loop += 1
        b = self.block(d - 1)
        self.loop -= 1
        self.kw(b'end')
        self.p.feats.add('StatWhile')
        return ('StatWhile', e, b)

    def s_repeat(self, d):
        self.kw(b'repeat')
        self.loop += 1
        b = self.block(d - 1)
        self.loop -= 1
        self.kw(b'until')
        e = (self.exp(d - 1))
        self.p.feats.add('StatRepeat')
        return ('StatRepeat', b, e)

    def s_if(self, d):
        rng = self.rng
        pairs = []
        i0 = len(self.p.toks)
        self.kw(b'if')
        if self.o.get('if_do', True) and not self.in_line and rng.random() < 0.1:
            # `if (cond) do` + line break: the form picotool's parser accepts on purpose ("oddball carts that exploit an accidental
            # loophole in short-if"; PICO-8 reads it as `if (cond) then do end`), so `do` ends its line here
            self.sym(b'(')
            self.in_line += 1            # (the head stays on its line: no token that spans lines in the condition)
            e = (self.exp(max(d - 2, 0)))
            self.in_line -= 1
            self.sym(b')')
            i_do = self.t('keyword', b'do')
            self.p.must_break.add(i_do + 1)
            self.p.feats.add('if-do')
        else:
            e = (self.exp(d - 1))
            self.kw(b'then')
        self._head_scope(i0, i0 + 1)
        pairs.append((e, self.block(d - 1)))
        for _ in range(rng.choice((0, 0, 1, 2))):
            i1 = len(self.p.toks)
            self.kw(b'elseif')
            e = (self.exp(d - 1))
            self.kw(b'then')
            pairs.append((e, self.block(d - 1)))
            self.p.feats.add('elseif')
        if rng.random() < 0.4:
            self.kw(b'else')
            pairs.append((None, self.block(d - 1)))
            self.p.feats.add('else')
        self.kw(b'end')
        self.p.feats.add('StatIf')
        return ('StatIf', pairs, False)

    def linestats(self, d, first=True):
        """One or more simple statements for a short-if branch (single physical line)."""
        rng = self.rng
        stats = []
        n = rng.choice((1, 1, 1, 2, 3))
        for k in range(n):
            last = k == n - 1
            kinds = ['assign', 'call', 'call', 'local']
            if d > 0 and not last:
                kinds.append('oneline_block')      # a block statement written on the line, followed by more statements of the line
            if last:
                kinds += ['compound', 'return', 'break' if self.loop else 'call', 'goto' if self.labels else 'assign']
                if d > 0:
                    kinds.append('oneline_block')
                if self.o['nested_short_if'] and d > 0:
                    kinds += ['nested']
            kk = rng.choice(kinds)
            self.p.stmts.append(len(self.p.toks))
            if kk == 'assign':
                # no parenthesised target directly after the condition / another statement on the line
                v = self.prefixexp(0, 'var', paren=False)[0]
                self.sym(b'=')
                stats.append(('StatAssignment', [v], b'=', [(self.exp(0))]))
            elif kk == 'call':
                stats.append(('StatFunctionCall', self.prefixexp(min(d, 1), 'call', paren=False)[0]))
            elif kk == 'local':
                self.kw(b'local')
                nm = self.name()
                self.sym(b'=')
                stats.append(('StatLocalAssignment', [nm], [(self.exp(0))]))
            elif kk == 'compound':
                stats.append(self.s_compound(0))
            elif kk == 'return':
                self.kw(b'return')
                ex = None
                if rng.random() < 0.6:
                    ex = [(self.exp(0))]
                stats.append(('StatReturn', ex))
                self.p.feats.add('shortif-return')
            elif kk == 'break':
                self.kw(b'break')
                stats.append(('StatBreak',))
                self.p.feats.add('shortif-break')
            elif kk == 'goto':
                self.kw(b'goto')
                lb = rng.choice(self.labels)
                i = self.t('name', lb)
                self.p.names.append(i)
                stats.append(('StatGoto', lb))
            elif kk == 'oneline_block' and rng.random() < 0.6:
                # (`if (c) do ... end` is PICO-8's alternative spelling of `if c then ... end`: a `do` block cannot open the line's body)
                form = rng.choice(('if', 'while', 'do') if k > 0 else ('if', 'while'))
                if form != 'do':
                    self.kw(form.encode())
                    cond = [self.prefixexp(0, 'var', paren=False)[0]]     # (a condition starting with `(` would read as a short-if)
                    self.kw(b'then' if form == 'if' else b'do')
                else:
                    self.kw(b'do')
                if form == 'while':
                    self.loop += 1
                v = self.prefixexp(0, 'var', paren=False)[0]
                self.sym(b'=')
                inner = ('StatAssignment', [v], b'=', [(self.exp(0))])
                if form == 'while':
                    self.loop -= 1
                self.kw(b'end')
                body = ('Chunk', [inner])
                stats.append(('StatIf', [(cond, body)], False) if form == 'if' else ('StatWhile', cond, body) if form == 'while'
                             else ('StatDo', body))
                self.p.feats.add('shortif-oneline-block')
                self.p.feats.add('shortif-oneline-' + form)
            elif kk == 'oneline_block':
                self.kw(b'for')
                nm = self.name()
                self.sym(b'=')
                e1 = (self.exp(0))
                self.sym(b',')
                e2 = (self.exp(0))
                self.kw(b'do')
                self.loop += 1
                v = self.prefixexp(0, 'var', paren=False)[0]
                self.sym(b'=')
                inner = ('StatAssignment', [v], b'=', [(self.exp(0))])
                self.loop -= 1
                self.kw(b'end')
                stats.append(('StatForStep', nm, e1, e2, None, ('Chunk', [inner])))
                self.p.feats.add('shortif-oneline-block')
            else:
                stats.append(self.s_shortif(d - 1, nested=True))
                self.p.feats.add('nested-short-if')
        return ('Chunk', stats)

    def s_shortif(self, d, nested=False):
        rng = self.rng
        i0 = len(self.p.toks)
        self.kw(b'if')
        self.sym(b'(')
        self.in_line += 1
        cond = (self.exp(min(d, 1)))
        self.sym(b')')
        pairs = [(cond, self.linestats(d))]
        last = pairs[0][1][1][-1]
        dangling = last[0] == 'StatIf' and last[2]   # an `else` here would belong to the nested short-if
        if rng.random() < 0.3 and not dangling:
            self.kw(b'else')
            pairs.append((None, self.linestats(d)))
            self.p.feats.add('shortif-else')
        self.in_line -= 1
        if not nested and not self.in_line:
            self.p.scopes.append((i0, len(self.p.toks) - 1, True))
        self.p.feats.add('shortif')
        return ('StatIf', pairs, True)

    def s_qprint(self, d):
        rng = self.rng
        i0 = len(self.p.toks)
        self.t('name', b'?')
        self.in_line += 1
        if rng.random() < 0.6:
            a = self.string()
            self.p.feats.add('qprint-string')
        else:
            self.sym(b'(')
            exps = []
            n = rng.choice((1, 2, 3))
            for k in range(n):
                exps.append((self.exp(0)))
                if k < n - 1:
                    self.sym(b',')
            self.sym(b')')
            a = ('FunctionArgs', exps)
            self.p.feats.add('qprint-parens')
        self.in_line -= 1
        self.p.scopes.append((i0, len(self.p.toks) - 1, True))
        self.p.feats.add('qprint')
        return ('StatFunctionCall', ('FunctionCall', [('VarName', b'?')], a))

    def s_forstep(self, d):
        rng = self.rng
        self.kw(b'for')
        nm = self.name()
        self.sym(b'=')
        e1 = (self.exp(d - 1))
        self.sym(b',')
        e2 = (self.exp(d - 1))
        e3 = None
        if rng.random() < 0.35:
            self.sym(b',')
            e3 = (self.exp(d - 1))
        self.kw(b'do')
        self.loop += 1
        b = self.block(d - 1)
        self.loop -= 1
        self.kw(b'end')
        self.p.feats.add('StatForStep')
        return ('StatForStep', nm, e1, e2, e3, b)

    def s_forin(self, d):
        rng = self.rng
        self.kw(b'for')
        names = []
        n = rng.choice((1, 2, 2, 3))
        for k in range(n):
            names.append(self.name())
            if k < n - 1:
                self.sym(b',')
        self.kw(b'in')
        exps = []
        m = rng.choice((1, 1, 2))
        for k in range(m):
            exps.append((self.exp(d - 1)))
            if k < m - 1:
                self.sym(b',')
        self.kw(b'do')
        self.loop += 1
        b = self.block(d - 1)
        self.loop -= 1
        self.kw(b'end')
        self.p.feats.add('StatForIn')
        return ('StatForIn', names, exps, b)

    def s_function(self, d):
        rng = self.rng
        self.kw(b'function')
        path = [self.name()]
        for _ in range(rng.choice((0, 0, 1, 2))):
            self.sym(b'.')
            path.append(self.name())
        meth = None
        if rng.random() < 0.25:
            self.sym(b':')
            meth = self.name()
            self.p.feats.add('funcname:method')
        if len(path) > 1:
            self.p.feats.add('funcname:dotted')
        fb = self.funcbody(d - 1)
        self.p.feats.add('StatFunction')
        return ('StatFunction', (path, meth), fb)

    def s_localfunction(self, d):
        self.kw(b'local')
        self.kw(b'function')
        nm = self.name()
        fb = self.funcbody(d - 1)
        self.p.feats.add('StatLocalFunction')
        return ('StatLocalFunction', nm, fb)

    def s_label(self, d):
        rng = self.rng
        lb = rng.choice(PLAIN_NAMES + SHORT_NAMES + KW_NAMES[:4])
        self.sym(b'::')
        i = self.t('name', lb)
        self.p.names.append(i)
        self.sym(b'::')
        # picotool lexes ::name:: as one token: the three pieces must be written without separators
        self.p.scopes.append((i - 1, i + 1, 'tight'))
        self.labels.append(lb)
        self.p.feats.add('StatLabel')
        return ('StatLabel', lb)

    def s_goto(self, d):
        rng = self.rng
        self.kw(b'goto')
        lb = rng.choice(self.labels) if self.labels and rng.random() < 0.7 else rng.choice(PLAIN_NAMES)
        i = self.t('name', lb)
        self.p.names.append(i)
        self.p.feats.add('StatGoto')
        return ('StatGoto', lb)


def gen_program(rng, opts=None):
    g = Gen(rng, opts)
    g.p.tree = g.block(g.o['depth'], top=True)
    g.p.opts = g.o
    return g.p
