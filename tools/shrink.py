#!/venv/bin/python
"""Dev helper: shrink the 'src' of recorded violations.  tools/shrink.py C10 [substring of what] [max cases]
Reads out/dump-<ID>.json (written by tools/viol.py), replays each case in-process through the check's replay()
and removes tokens (reference-lexer tokens) while a violation is still reported."""
import json, os, sys
HERE = os.path.dirname(os.path.dirname(os.path.abspath(__file__)))
sys.path.insert(0, HERE)
from vf import core, reflex
core.setup_repo_path()
pid = sys.argv[1]
needle = sys.argv[2] if len(sys.argv) > 2 else ''
maxc = int(sys.argv[3]) if len(sys.argv) > 3 else 3
mod = core.load_check(pid)
viol = json.load(open(os.path.join(HERE, 'out', 'dump-%s.json' % pid)))


def fails(case):
    ctx = core.ShardContext({'seed': 1})
    try:
        mod.replay(case, ctx)
    except Exception as e:
        return None
    for v in ctx.violations:
        if needle in v['what']:
            return v['what']
    return None


n = 0
for v in viol:
    if needle not in v['what']:
        continue
    case = core.unjson(v['case'])
    case.pop('scopes', None)
    case.pop('nsig', None)
    if not fails(case):
        print('not reproducible without scopes:', v['what'][:100])
        continue
    src = case['src']
    toks = [t.raw for t in reflex.lex(src)]
    chunk = max(1, len(toks) // 2)
    while chunk >= 1:
        i = 0
        while i < len(toks):
            cand = toks[:i] + toks[i + chunk:]
            c2 = dict(case, src=b''.join(cand))
            if reflex.try_lex(c2['src'])[1] is None and fails(c2):
                toks = cand
            else:
                i += chunk
        chunk //= 2
    c2 = dict(case, src=b''.join(toks))
    print(repr(c2['src']), 'width', case.get('width'), '->', fails(c2)[:200])
    n += 1
    if n >= maxc:
        break
