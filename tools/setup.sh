#!/bin/sh
# Offline setup: optional third-party helpers beside the repository's interpreter.
# The checks run without them (icontract is only used by a supporting monitor, jsonschema
# only to self-validate evidence), so failure here is not fatal.
cd "$(dirname "$0")/.." || exit 1
mkdir -p out evidence
if [ ! -d .deps/icontract ]; then
  /venv/bin/pip install --quiet --no-index --find-links /opt/veriftools/wheels --target .deps icontract jsonschema >/dev/null 2>&1 || echo "setup: optional deps not installed (continuing)"
fi
/venv/bin/python -c "import pico8, png; print('setup ok: pico8 from', pico8.__file__)"
