#!/bin/sh
# Runs the repository's pinned suite with no verification hooks (there are none) and prints the summary line.
cd /repo && /venv/bin/python -m pytest -q -p no:cacheprovider --timeout=900 --continue-on-collection-errors -x -n 8 2>&1 | tail -3
