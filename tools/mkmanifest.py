#!/usr/bin/env python3
"""Regenerates MANIFEST.json from the table below (single source of truth)."""
import json
import os

HERE = os.path.dirname(os.path.dirname(os.path.abspath(__file__)))

CHECKS = {
    'C15': dict(
        category='exploration',
        text='The real converters are executed on the complete space of single bytes and byte pairs and on random long strings; '
             'the monitor compares every result with the identity and checks the table properties the statement names. '
             'Complete on the finite part, sampled beyond it; appropriate because the property is a pure function over a tiny generating set.',
        design_ref='DESIGN.md §5 C15',
        note='Trusts CPython str/bytes; prefix-freeness + pair round trip are taken to imply all strings.',
        technique='runtime monitoring: exhaustive input enumeration with identity oracle on the real converters'),
    'C17': dict(
        category='exploration',
        text='History monitor: random sequences of real accessor calls are mirrored on an independent shadow memory; after every call all five '
             'regions are compared byte-for-byte and every getter result with the model. Sampling of histories, biased to the documented edges; '
             'the right level because the property is about arbitrary call sequences, which only execution can exercise.',
        design_ref='DESIGN.md §5 C17',
        note='Trusted base: vf/memmodel.py (my reading of the docstrings and PICO-8 memory map); out-of-contract arguments are not generated.',
        technique='runtime monitoring: history monitor against a shadow-memory reference model'),
    'C18': dict(
        category='exploration',
        text='History monitor on Game.write_cart_data: every write is mirrored on a shadow bytearray and all regions (content and length) are compared '
             'after each call; the +-2 neighbourhood of all six region boundaries is enumerated completely (351 pairs), random pairs, spans, rejected '
             'writes and write sequences are sampled.',
        design_ref='DESIGN.md §5 C18',
        note='Trusted base: the PICO-8 memory map constants in vf/refcodec.py.',
        technique='runtime monitoring: history monitor against a shadow-memory reference model, boundary enumeration'),
    'C04': dict(
        category='exploration',
        text='The real .p8.png writer is run on generated carts (all code-size classes incl. the 0x3d00 boundary +-2 and oversize); an independent PNG decoder, '
             'stego unpacker and :c:/raw code decoder check validity, label bits, memory layout and code; picotool\'s reader closes the round trip; '
             'refusals are checked to leave the destination untouched. Sampled; size classes targeted.',
        design_ref='DESIGN.md §5 C04',
        note='Trusted base: vf/refcodec.py (PNG, stego, :c:) validated on the PICO-8-written carts in tests/testdata; fit decision uses a margin band.',
        technique='runtime monitoring: round-trip and reference-decoder oracle on real writer output'),
    'C05': dict(
        category='exploration',
        text='Producer monitor: every stream compress_code emits is parsed item by item by a validating reference decoder and must decode to the input; '
             'consumer monitor: well-formed streams from a randomised reference encoder must decode identically in picotool. Exhaustive on all strings of '
             'length <= 9 (thorough 11) over a 4-symbol alphabet, sampled beyond.',
        design_ref='DESIGN.md §5 C05',
        note='Trusted base: the :c: format as implemented in vf/refcodec.py (byte-wise copy, table, header); NUL and reserved-suffix texts excluded.',
        technique='runtime monitoring: validating reference decoder + randomised reference encoder (differential oracle)'),
    'C03': dict(
        category='exploration',
        text='Round-trip monitor on the real .p8 writer/reader (stream, path and CLI entries): every observable of the re-read cart is compared with the '
             'original, the second write must be byte-identical, and an independent reference reader must see the same memory in the file. Sampled carts '
             'with every byte value in every region and in code.',
        design_ref='DESIGN.md §5 C03',
        note='Trusted base: vf/refcodec.read_p8; string re-spelling exactness is left to C06; `__section__`-like source lines excluded.',
        technique='runtime monitoring: round-trip oracle plus independent reference reader'),
    'C16': dict(
        category='exploration',
        text='Differential monitor: picotool section/PNG writers vs independent reference encoders (byte-equal) and reference-encoded files through '
             'picotool readers; exhaustive over all sfx note words, gfx value x column pairs, music flag/channel/value combinations and the stego split; '
             'PICO-8-written testdata pairs compared with each other and with the reference readers.',
        design_ref='DESIGN.md §5 C16',
        note='Trusted base: vf/refcodec.py, my reading of the PICO-8 formats, validated in-run on the PICO-8-written carts in tests/testdata.',
        technique='runtime monitoring: differential oracle against independent reference codecs'),
    'C06': dict(
        category='exploration',
        text='The real default writer is run on generated programs in random layouts and on a string-literal enumerator; source and echo are both lexed by the '
             'independent reference lexer and compared token by token (bytes outside quoted strings, decoded value inside), and picotool\'s token positions must '
             'tile the source. A sample goes through the CLI copy paths.',
        design_ref='DESIGN.md §5 C06',
        note='Trusted base: vf/reflex.py (validated token-for-token on the PICO-8-written carts in tests/testdata). Domain = sources the reference lexer accepts.',
        technique='runtime monitoring: differential oracle (reference lexer on input and output)'),
    'C07': dict(
        category='exploration',
        text='Differential monitor: picotool\'s token list vs the reference lexer on every ordered pair from a pool of all symbols/keywords/literal forms (adjacent and '
             'spaced), numeric/string/identifier enumerators and generated programs; kinds, extents, positions, string bytes and numeric values compared; '
             'single-chunk vs per-line-chunk runs compared; a sample delivered through reference-written .p8/.p8.png files.',
        design_ref='DESIGN.md §5 C07',
        note='Trusted base: vf/reflex.py, my reading of Lua 5.2 §3.1 plus the PICO-8 extensions the properties name. Sources it rejects are out of domain.',
        technique='runtime monitoring: differential oracle against an independent reference lexer'),
    'C08': dict(
        category='exploration',
        text='Programs are drawn from the dialect grammar together with their expected tree, rendered in random layouts and parsed by the real parser; the exposed '
             'tree is normalised and compared node by node with the expectation, and everything after root.end_pos must be whitespace/comment. Sampled up to '
             'nesting depth 3 (thorough 5).',
        design_ref='DESIGN.md §5 C08, Appendix A/B',
        note='Trusted base: vf/progen.py (grammar + expected trees) and vf/layout.py; every rendering is re-lexed by the reference lexer and discarded if it '
             'does not yield the intended tokens.',
        technique='runtime monitoring: generator-known expected tree compared with the exposed AST (reference-model oracle)'),
    'C09': dict(
        category='exploration',
        text='The real formatter (library and CLI, widths 0-8) runs on generated valid programs; input and output are aligned token by token under the reference '
             'lexer (comments included), line scopes and the token count are checked; mutants that lex but do not parse to the end must be refused or written '
             'completely by every tree-driven writer and by the CLI (with --overwrite: input intact).',
        design_ref='DESIGN.md §5 C09',
        note='Trusted base: vf/reflex.py, vf/progen.py line-scope bookkeeping. Strings by value, comments modulo inner whitespace.',
        technique='runtime monitoring: differential token alignment (reference lexer) + mutation workload for the no-silent-loss clause'),
    'C01': dict(
        category='exploration',
        text='The real minifier (library, `p8tool luamin`, `build --lua-minify`) runs on generated programs in random and pair-directed layouts; input and '
             'output are aligned under the reference lexer (tokens, exact numeric and string values, name positions), line scopes and the stats token count '
             'are checked. Coverage of ordered token-class adjacencies is measured against a committed table of 1817 grammatical pairs (gate >= 95%).',
        design_ref='DESIGN.md §5 C01',
        note='Trusted base: vf/reflex.py, vf/progen.py scopes, vf/data/adjacency.json (mined from the generator).',
        technique='runtime monitoring: differential token alignment under a reference lexer, adjacency-coverage gate'),
    'C02': dict(
        category='exploration',
        text='Offline trace monitor over aligned identifier occurrences of input and luamin output: the relation must be a function, injective over all '
             'identifiers, identity on reserved/kept names, never generating a reserved name; programs reach ~3000 distinct identifiers; an icontract '
             'postcondition on the real name factory runs alongside and 20k (thorough 500k) fresh names are enumerated through it.',
        design_ref='DESIGN.md §5 C02',
        note='Trusted base: vf/reflex.py alignment; API list = shipped PICO8_BUILTINS + hard-coded core.',
        technique='runtime monitoring: offline relation checker over recorded rename events + icontract postcondition'),
    'C19': dict(
        category='exploration',
        text='The real minifier runs on programs with every header shape; the output must start with the first two leading comments verbatim on their own '
             'lines, yield the same title/byline (reference rule and picotool\'s get_title/get_byline), contain no other comment, and align token-for-token '
             'with the input.',
        design_ref='DESIGN.md §5 C19',
        note='Trusted base: vf/reflex.py.',
        technique='runtime monitoring: reference-lexer oracle on input/output pairs'),
    'C10': dict(
        category='exploration',
        text='The real formatter runs on generated programs laid out one statement per line (and other layouts) at widths 0-8: metamorphic pairs (same line '
             'breaks, different indentation/trailing blanks) must give identical bytes, a second pass must change nothing, an independent depth tracker over the '
             'reference token stream of the output predicts the indentation of every code-leading line, and line-shape rules are checked.',
        design_ref='DESIGN.md §5 C10, Appendix C',
        note='Trusted base: vf/reflex.py; the depth tracker in vf/checks/c10.py; one-line constructs are identified from the generator\'s line scopes.',
        technique='runtime monitoring: metamorphic oracle + idempotence + independent indentation model'),
    'C20': dict(
        category='exploration',
        text='The harness writes including carts and targets of all three kinds (reference writers), loads them with the real file.from_file and compares the '
             'code with a reference splice computed from the bytes it wrote (line-based, tab selection by `-->8` lines); nested include lines must stay literal '
             'and missing targets must fail.',
        design_ref='DESIGN.md §5 C20',
        note='Trusted base: vf/refcodec.py writers; the splice rule in vf/checks/c20.py (a spliced line is always a line of its own).',
        technique='runtime monitoring: reference-model oracle (independent splice) on real loads'),
    'C13': dict(
        category='exploration',
        text='`p8tool build` is run through tool.main on sources and previous OUT files written by the reference writers with known random contents; OUT is read '
             'back by the reference readers (and by picotool, which must agree) and every section, the label and the error behaviour are compared with the '
             'expectation computed from the arguments. Thorough enumerates all 4^6 section assignments across the OUT states/formats.',
        design_ref='DESIGN.md §5 C13',
        note='Trusted base: vf/refcodec.py readers/writers. Music bit 7 of every 4th byte kept clear; code compared modulo one final newline.',
        technique='runtime monitoring: reference-reader oracle over an enumerated configuration matrix'),
    'C14': dict(
        category='exploration',
        text='The harness writes a main file and a graph of package files built from known pieces (generated code, game-loop functions, require() in every '
             'syntactic position), runs `p8tool build` and compares the built code under the reference lexer with a reference composition: main program last '
             'and unchanged, loader present, each expected name defined exactly once, each body token-identical to its source minus stripped game-loop '
             'definitions; picotool\'s parser must reach the end; unusable require() calls must fail the build.',
        design_ref='DESIGN.md §5 C14',
        note='Trusted base: vf/reflex.py; the piece bookkeeping in vf/checks/c14.py. Package order in the table is not prescribed.',
        technique='runtime monitoring: reference composition oracle over generated package graphs'),
    'C12': dict(
        category='exploration',
        text='Trace monitor: a sys.addaudithook hook records every open() while carts are loaded (#include) or built (require) inside a temp universe with '
             'location-bearing files everywhere and a hostile file-system mode in which every path outside the roots "exists"; an open() outside the '
             'harness-computed roots, or spliced content from there, is a violation. Path strings are enumerated completely up to 3 (thorough 4) segments '
             'over the hostile alphabet, across load-path and cart-location configurations.',
        design_ref='DESIGN.md §5 C12',
        note='Trusted base: CPython audit events for open(); permitted roots computed by the harness. Existence probes are recorded, not judged. No symlinks.',
        technique='runtime monitoring: audit-hook trace monitor with hostile file system (fault-injecting environment)'),
    'C11': dict(
        category='fault_enumeration',
        text='Faults are injected into the real write paths (file.to_file, luafmt --overwrite, build over its input) at every stream write index, in the Lua '
             'writer, in section encoders, in the PNG encoder, and as source-free failpoints raised from sys.monitoring LINE events at every distinct executed '
             '(function, line) site plus random indices; after each delivered fault a snapshot oracle compares the destination (bytes, inode, mtime, '
             'directory listing) with its state before the call. An audit hook logs early destination opens as supporting trace.',
        design_ref='DESIGN.md §5 C11',
        note='Trusted base: the injectors in vf/faults.py; CPython sys.monitoring. Faults after the encoder returned (the final copy) are out of scope.',
        technique='runtime monitoring: fault injection (failing streams/encoders, sys.monitoring failpoints) with before/after state oracle'),
}

NOT_BUILT = 'check not built yet in this session (design in DESIGN.md §5); not claimed until its monitor runs silent on the unchanged tree'


def main():
    props = [json.loads(l) for l in open(os.path.join(HERE, 'properties.jsonl'))]
    checks = []
    na = []
    for p in props:
        pid = p['id']
        c = CHECKS.get(pid)
        if c is None:
            na.append({'property_id': pid, 'reason': NOT_BUILT})
            continue
        checks.append({
            'property_id': pid,
            'quick_cmd': './check %s quick' % pid,
            'thorough_cmd': './check %s thorough' % pid,
            'evidence_file': 'evidence/%s.json' % pid,
            'replay_cmd_template': './check %s --replay {path}' % pid,
            'engine': 'vf',
            'level_claimed': {'category': c['category'], 'text': c['text'], 'design_ref': c['design_ref']},
            'level_note': c['note'],
            'technique': c['technique'],
        })
    man = {
        'version': 1,
        'setup_cmd': 'sh tools/setup.sh',
        'hooks': {
            'guard': 'PICOTOOL_VERIF',
            'enable': 'none needed: every observation point is reachable from outside (public API, sys.addaudithook, sys.monitoring, wrapped module attributes); checks import pico8 from /repo in fresh subprocesses',
            'baseline_off_cmd': 'cd /repo && /venv/bin/python -m pytest -ra -q -p no:cacheprovider --timeout=900 --continue-on-collection-errors',
            'source_commits': [],
            'add_only': True,
        },
        'engines': [{
            'name': 'vf', 'path': 'vf/',
            'serves_properties': [c['property_id'] for c in checks],
            'kind_free_text': 'runtime monitors: reference-model oracles (independent lexer/codecs/shadow memory), audit-hook and sys.monitoring trace monitors, fault injection; driven by generated workloads in sharded subprocesses',
        }],
        'checks': checks,
        'not_applicable': na,
        'notes': 'Exit codes: 0 held, 1 VIOLATION, 2 INCONCLUSIVE (coverage gate missed / watchdog). Known findings: known_findings.json.',
    }
    with open(os.path.join(HERE, 'MANIFEST.json'), 'w') as fh:
        json.dump(man, fh, indent=1)
        fh.write('\n')
    try:
        import jsonschema
        jsonschema.validate(man, json.load(open('/root/.vp/MANIFEST.schema.json')))
        print('MANIFEST.json valid:', len(checks), 'checks,', len(na), 'not claimed')
    except ImportError:
        print('MANIFEST.json written (jsonschema not available to validate)')


if __name__ == '__main__':
    main()
