#!/usr/bin/env python3
"""Copy finished sub-agent output /tmp/wt/<ID>/_seeded/<ID>-N into /verif/seeded/ (adds the worktree path to meta.json)."""
import json, os, shutil, sys
HERE = os.path.dirname(os.path.dirname(os.path.abspath(__file__)))
for pid in sys.argv[1:]:
    base = os.environ.get('SEED_BASE', '/tmp/wt')
    src = '%s/%s/_seeded' % (base, pid)
    if not os.path.isdir(src):
        print(pid, 'no _seeded dir'); continue
    for name in sorted(os.listdir(src)):
        d = os.path.join(src, name)
        if not all(os.path.exists(os.path.join(d, f)) for f in ('patch.diff', 'demo.py', 'meta.json')):
            print(name, 'incomplete'); continue
        dst = os.path.join(HERE, 'seeded', name)
        os.makedirs(dst, exist_ok=True)
        for f in ('patch.diff', 'demo.py'):
            shutil.copy(os.path.join(d, f), os.path.join(dst, f))
        meta = json.load(open(os.path.join(d, 'meta.json')))
        meta['worktree'] = '%s/%s' % (base, pid)
        meta['origin'] = 'independent sub-agent given only the property text and its own scratch worktree'
        json.dump(meta, open(os.path.join(dst, 'meta.json'), 'w'), indent=1)
        print('imported', name)
