#!/usr/bin/env python3
"""Dev helper: tools/viol.py C07 [tier]  -> runs the check with VF_DUMP and prints the violations grouped by key."""
import collections, json, os, subprocess, sys
pid = sys.argv[1]
tier = sys.argv[2] if len(sys.argv) > 2 else 'quick'
here = os.path.dirname(os.path.dirname(os.path.abspath(__file__)))
env = dict(os.environ, VF_DUMP='1')
p = subprocess.run([os.path.join(here, 'check'), pid, tier], env=env, stdout=subprocess.PIPE, text=True)
print(p.stdout[:1200])
v = json.load(open(os.path.join(here, 'out', 'dump-%s.json' % pid)))
by = collections.defaultdict(list)
for x in v:
    by[x['key']].append(x)
for k, xs in by.items():
    print('==', k, len(xs))
    lim = 40 if k is None else 3
    for x in xs[:lim]:
        c = x['case']
        src = c.get('src') if isinstance(c, dict) else None
        print('   ', x['what'][:260].replace('\n', '\\n'), '| src=', repr(src)[:160] if src else '')
