#!/usr/bin/env python3
"""Builds vf/data/adjacency.json: the table of ordered pairs of token classes that the dialect generator makes
adjacent (the 'grammatical adjacency table' of DESIGN.md §5 C01).  Run with /venv/bin/python from /verif."""
import collections, json, os, random, sys
HERE = os.path.dirname(os.path.dirname(os.path.abspath(__file__)))
sys.path.insert(0, HERE)
from vf import progen, reflex, minify
rng = random.Random(20261004)
pairs = collections.Counter()
for i in range(30000):
    p = progen.gen_program(rng, {'depth': rng.choice((1, 2, 3)), 'max_stmts': 4, 'paren_op_prefix': rng.random() < 0.2,
                                 'exotic_numbers': True, 'exotic_strings': True})
    toks = [reflex.lex(raw)[0] for k, raw in p.toks]
    for a, b in zip(toks, toks[1:]):
        pairs[(minify.token_class(a), minify.token_class(b))] += 1
table = sorted([a, b] for (a, b), v in pairs.items() if v >= 5)
json.dump({'pairs': table, 'programs': 30000, 'min_count': 5}, open(os.path.join(HERE, 'vf', 'data', 'adjacency.json'), 'w'))
print(len(table), 'pairs')
