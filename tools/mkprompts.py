#!/usr/bin/env python3
"""Writes one prompt file per property for a seeding round: tools/mkprompts.py <round> <base dir>.
The prompt holds the property text, one-line summaries of the changes already seeded for that property, and the output format;
nothing about /verif's checks."""
import json, os, sys
HERE = os.path.dirname(os.path.dirname(os.path.abspath(__file__)))
rnd, base = sys.argv[1], sys.argv[2]
props = [json.loads(l) for l in open(os.path.join(HERE, 'properties.jsonl'))]
os.makedirs(os.path.join(base, 'prompts'), exist_ok=True)
for p in props:
    pid = p['id']
    earlier = []
    for n in sorted(os.listdir(os.path.join(HERE, 'seeded'))):
        mp = os.path.join(HERE, 'seeded', n, 'meta.json')
        if n.startswith(pid + '-') and os.path.exists(mp):
            m = json.load(open(mp))
            earlier.append('- ' + ' '.join(str(m.get('summary', '')).split())[:330])
    wt = os.path.join(base, pid)
    text = '''You are helping to evaluate how well a verification harness detects regressions in the Python project "picotool"
(dansanderson/picotool: library + CLI `p8tool` for PICO-8 cartridges). You have your own scratch git worktree of the project at
%(wt)s (work only there; never touch /repo or /verif; do not use `git stash`; the interpreter with the project's
dependencies is /venv/bin/python; the test suite is run with `cd %(wt)s && /venv/bin/python -m pytest -q -p no:cacheprovider -x -n 4`
and has 278 tests).

PROPERTY %(pid)s (a guarantee users rely on):
%(stmt)s

TASK: produce THREE different, realistic changes to the project's source (each as a separate patch against the clean HEAD of your
worktree) such that, with the change applied,
  (1) all 278 existing tests still pass, unedited;
  (2) the property above is broken for some inputs / call sequences / environments - demonstrably, by a small script;
  (3) the change looks like something a maintainer could plausibly commit (a refactor, an optimisation, a convenience feature, a
      "fix" for something else, a tidy-up) - not sabotage, no dead giveaways, no special-casing of magic values;
  (4) the breakage is NARROW: most uses keep working, so that only a check that really explores the property notices.

The following changes have ALREADY been made by earlier participants for this property; yours must not resemble any of them
(different mechanism, different place in the code, different kind of triggering input):
%(earlier)s

Mechanisms that earlier rounds have used a lot and that you should therefore AVOID: caches / memoisation and shared mutable
defaults, buffers kept instead of copied, behaviour depending on --debug/-q verbosity or on `python -O`, fixed size limits
(8 kB, 32768, 65535, 80 columns, 200 levels), one-shot iterables, empty-string arguments, byte-order marks, bare-CR line ends,
missing final newlines, file names with extra dots, symbolic links, backslash path separators, undecodable bytes, NUL
characters, non-ASCII package/file names, two-digit tab selectors, side files created on a first run, version-0 carts, the order of sections in a .p8 file, a Lua section
that is last or alone in the file, all-black labels, CRLF in .lua sources, a temporary directory on another file system, `~` in
paths, nested require() directories, empty packages, `?` in the directory part of a load path, tab-indented directives, `-->8` tab
lines, identifiers that are keywords in another letter case, runs of blank lines, --lua-path together with PICO8_LUA_PATH,
names with double underscores, an explicit label_fname, one-line blocks inside short-if lines, a selector after a .lua name,
PNG ancillary chunks, the type of the exception a writer raises, cart versions above 33, carts loaded from a stream without a
file name, the newer (pxa) code compression, which of two matching files a load path picks, byte runs that look like UTF-8,
addresses beyond 16 bits, leftover *_fmt files, buffers without padding, hex numerals directly followed by `..`, the `\\z`
string escape, blanks inside `:: label ::`, the `?` print shorthand treated as a name, the 26th generated short name, keep-file
names next to reserved candidates, the level of a long bracket, a code object made for another cart version, a .p8 file without
`__lua__` section / a cart without any code, streams that end exactly at the edge of the code area, 7-bit keys for 8-bit
characters, luafmt/luamin options on .p8.png carts, a destination given as a bare file name, the locale's text encoding, regular
expression metacharacters in directory names, folders that look like the PICO-8 carts folder, `f{...}` calls in build sources,
the glyphs 16-31 and 127, a custom load path falling back to the default patterns, a main program ending in `return`, lines of
the form `__<glyphs>__`, bytearray / memoryview arguments, the label image treated as a memory section, tabs inside header
comments, #include of a cart without code, one Lexer / Lua object fed in several calls (process_lines, update_from_lines), call
shapes (positional vs keyword arguments, changed defaults), several carts on one command line, the `_update60` compatibility
line, pictures of other sizes as label source, a Gfx object assigned to game.gfx while the map keeps the old one, all-zero data
past 0x4300, `version=None`, an `if (cond)` with nothing after it, a short `while (cond) stmt`, blanks or comments between
`require` and `(`, doubled path separators and names not in normal form, backslash sequences inside require() strings, project
folders inside the carts folder, the default (unused) sfx / music rows, source carts whose code calls require(), a missing
include target whose name exists in the other cart format, included .lua files that are fragments, #include names with other
extensions, Unicode normalisation (NFKC) and typographic replacements in the .p8 reader, `__slots__` on AST nodes, batch undo,
block comments that contain another opener, quoted strings continued with backslash-newline, identifiers such as `include` or
`version`, hard-linked destinations, source carts / OUT files that do not load, file names starting with `@`, warnings turned
into errors, interlaced PNG labels, template placeholders such as `{gfx}` in code, `#include` lines inside included carts,
included carts with multi-line tokens, helper functions named like game-loop functions (`_draw_hud`), `end;` after a game-loop
function, load path patterns with `..`, a transforming writer run before the default writer on the same object, regions longer
than their memory-map slot, redundant parentheses in the tree, the version byte / last row of the picture, keep-file lines with
blanks, labels no goto refers to, API names used as field names, the escape \\255, comments before commas in luafmt,
`__meta:title__` sections, section objects made for another version, pictures lying next to the destination, worker threads,
a closed output stream, blanks around path strings, a lower-case twin directory, a same-named cart in the other format next to
OUT, sections taken from a cart in another directory, file-name pattern characters in include names, a cart including its own
tab, names made of a keyword plus a glyph, `_ENV`, the order in which a tree walker visits operands, form feed / vertical tab,
title comment lines moved by build, numerals directly followed by keywords, a lexer fast path that ignores an open multi-line
token, `-- [[` with a blank, names that differ only in letter case, overlapping back-references, `.rom` destinations, pictures
without alpha channel, an output cart in another directory than the main program, OUT files from which sections are omitted,
OUT named after the options, empty .lua sources, goto labels with glyphs, block comments that the formatter moves left,
`if (...)` with a vararg condition, `return function`, an empty `else`, decimal literals with leading zeros, column numbers after
a long string, `require()` cycles, game-loop functions with parameters, argparse `nargs`, `re.sub` count/flags mix-ups,
`bytes.lstrip` with a set, lookup tables one entry short, late-binding closures in loops, strings that are mostly escapes
(`\\n`, quotes), reading a cart with `do_includes=False`, streams that are not at position 0 or cannot seek, a line that begins
with a one-line block comment, writers whose output depends on `lua_writer_args`, a Game whose `filename` names no file,
advisory locks on the destination, a carts-folder lookup for bare cart names, load path entries without `?`, `package.path`
assignments in the program, `#include`-looking lines inside comments or strings of a .lua source, require() as an assignment
target or operand, comments stripped from packages, glyphs that are whole tokens (`btn(x)` button names), .p8 sections that end
early, titles beginning with `keep` or other directive-like words, names beginning with dots, `-->8` at the end of a code line,
upper-case `0X` / `E` in numerals, the last sfx pattern (63), music flag bits, the first code token being an identifier,
members of kept tables, dispatch tables with a missing entry, `^^`, the field order of AST nodes, printast, luafmt falling back
to another formatter, the line break after `[[`, whitespace at line ends in the .p8 reader, a digit 9 after a numeric escape,
an escaped backslash before a closing quote, `.png` spritesheets as --gfx sources, sfx filter bits, keep-file names of 16 or
more characters or of one character, blank lines in the keep file, an existing destination longer than the new file (no
truncation), a `]]` earlier in a one-chunk source, an early exit of the compressor at the size limit, sprite-sheet bytes read as
the code header, eagerly formatted debug messages, `\\u{...}`, zero-padded decimal escapes, upper-case digits in `\\x` escapes,
numeric escapes that decode to a backslash, the other quote inside a plain string, `0x.8` / `0b.1`, `if (cond) do`, calls in
compound-assignment targets, duplicate table keys, string-call method arguments (`o:m"s"`), `//` header comments, conditions
continued over lines, CR LF in luafmt, KeyboardInterrupt / SystemExit from a writer, a restore-on-failure that rewrites the cart,
a reparse after the copy, an #include fallback in enclosing folders, `./` load path entries, cart packages (`?.p8`) with
includes, stale token positions after stripping, the same package required twice with different options, two packages that both
keep `_update`, the O-button glyph's variation selector, kana refused for old versions, `line[:-0]`, one-colour gfx rows, pixels
skipped when only the top two bits differ, the blank line before `__gff__`, odd-width sprite rows at the right edge,
`note_duration` 0, `[row] * 8` aliasing in get_rect_pixels, `Gff.set_flags` OR-ing, map writes that start in mid-row,
unanchored `find`, identical first two comments, multi-line block comments as line breaks, rulers / glyph-only titles,
a held-back last included line, consecutive #include lines, `:01` tab selectors, sfx `loop_end`, a first code line that is
empty, the last byte of a gfx row, labels following --gfx.
Look for something else, for example: a mask, shift or bit position that is off by one; signed/unsigned or 7-bit/8-bit handling;
an inclusive/exclusive range end; integer division or rounding; the order in which two sections / options / passes are applied;
an interaction between two command-line options or two library features that are each fine alone; a module-level table or
constant that gets an entry too many or too few; an exception of a different type or raised at a different moment; a default
argument whose value changes; sorting / iteration order; greedy vs non-greedy matching or an anchor in a regular expression;
a token or AST node kind handled by a general branch instead of its own; a state flag that is not reset between two phases of
ONE call; handling of the very first / very last element; a cart version number (8, 16, 29, 30, 33, 41...) used as a threshold;
label or header handling; an assumption about what comes before or after a token - in code that the existing tests happen not
to pin down. Read the code and the tests first to find what is NOT pinned.

For each change N in 1..3 write, under %(wt)s/_seeded/%(pid)s-r%(rnd)s-N/ :
  patch.diff  - `git diff` of the change against clean HEAD (must apply with `git apply` on a clean checkout);
  demo.py     - a self-contained script that locates the tree it runs in as `pathlib.Path(__file__).resolve().parents[2]`,
                puts it first on sys.path, exercises the property, prints PASS and exits 0 when the property holds, prints
                FAIL with a one-line reason and exits 1 when it is broken. It must exit 0 on the clean HEAD and 1 with the
                patch applied. Use only the standard library and the project (plus its installed dependencies).
  meta.json   - {"property": "%(pid)s", "summary": "<2-3 sentences: what was changed and why it breaks the property>",
                 "needs": "<what input / sequence / environment is needed to see it, and what keeps working>",
                 "files": [...], "verified": ["<commands you ran and what they printed>"], "worktree": "%(wt)s"}
After writing each patch.diff, restore the worktree (`git checkout -- . && git clean -fdq -e _seeded`) so the next change starts
from clean HEAD. Verify every claim yourself (tests pass with the patch; demo fails with it and passes without). If an idea does
not survive verification, drop it and find another. Finish with a short report of the three changes.
''' % {'wt': wt, 'pid': pid, 'stmt': p.get('statement'), 'earlier': '\n'.join(earlier) or '(none)', 'rnd': rnd}
    open(os.path.join(base, 'prompts', pid + '.txt'), 'w').write(text)
print('wrote', len(props), 'prompts to', os.path.join(base, 'prompts'))
