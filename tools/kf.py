#!/usr/bin/env python3
"""Maintain known_findings.json:  tools/kf.py add <property> <key> <open|fixed> <commit|-> <witness> <what>"""
import json, os, sys
P = os.path.join(os.path.dirname(os.path.dirname(os.path.abspath(__file__))), 'known_findings.json')
d = json.load(open(P))
if sys.argv[1] == 'add':
    _, _, prop, key, status, commit, witness, what = sys.argv
    d['findings'] = [f for f in d['findings'] if not (f['property'] == prop and f['key'] == key)]
    e = {'property': prop, 'key': key, 'status': status, 'witness': witness, 'what': what}
    if status == 'fixed':
        e['commit'] = commit
        e['line'] = 'fixed: property=%s %s %s' % (prop, commit, what)
    d['findings'].append(e)
    d['findings'].sort(key=lambda f: (f['property'], f['key']))
    json.dump(d, open(P, 'w'), indent=1, ensure_ascii=False)
    open(P, 'a').write('\n')
for f in d['findings']:
    print(f['property'], f['key'], f['status'], f.get('commit', ''))
