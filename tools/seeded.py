#!/usr/bin/env python3
"""Seeded property-breaking changes: verify them and run the checks against them.

  tools/seeded.py verify <name>       demo passes on the pristine tree; with the patch: pinned suite passes, demo fails
  tools/seeded.py detect <name> [tier] [check ids...]   run the property's check (default quick) on a patched scratch copy
  tools/seeded.py all [tier]          detect for every seeded change; writes seeded/results.json

A scratch copy of /repo (outside /repo and /verif) is patched and the checks are pointed at it with VF_REPO, so /repo itself
is never modified; the copy is removed afterwards."""
import json
import os
import shutil
import subprocess
import sys
import tempfile
import time

HERE = os.path.dirname(os.path.dirname(os.path.abspath(__file__)))
SEEDED = os.path.join(HERE, 'seeded')


def scratch(patch=None):
    d = tempfile.mkdtemp(prefix='vf-seeded-', dir='/tmp')
    repo = os.path.join(d, 'repo')
    subprocess.run(['git', 'clone', '-q', '--no-hardlinks', '/repo', repo], check=True)
    if patch:
        r = subprocess.run(['git', '-C', repo, 'apply', '--whitespace=nowarn', patch], capture_output=True, text=True)
        if r.returncode:
            r = subprocess.run(['git', '-C', repo, 'apply', '--3way', '--whitespace=nowarn', patch], capture_output=True, text=True)
            if r.returncode:
                shutil.rmtree(d)
                raise RuntimeError('patch does not apply: ' + r.stderr[-500:])
    return d, repo


def run_demo(repo, name):
    demo = os.path.join(SEEDED, name, 'demo.py')
    # keep the layout the demo was written for: <tree>/_seeded/<name>/demo.py
    os.makedirs(os.path.join(repo, '_seeded', name), exist_ok=True)
    dst = os.path.join(repo, '_seeded', name, 'demo.py')
    src = open(demo).read()
    # demos were written for a worktree path; point them at this copy
    meta = json.load(open(os.path.join(SEEDED, name, 'meta.json')))
    wt = meta.get('worktree')
    if wt:
        src = src.replace(wt, repo)
    open(dst, 'w').write(src)
    r = subprocess.run(['/venv/bin/python', dst], cwd=repo, capture_output=True, text=True, timeout=900,
                       env=dict(os.environ, PYTHONPATH=repo, PYTHONDONTWRITEBYTECODE='1'))
    return r.returncode, (r.stdout + r.stderr)[-600:]


def verify(name):
    patch = os.path.join(SEEDED, name, 'patch.diff')
    d, repo = scratch()
    try:
        rc0, out0 = run_demo(repo, name)
    finally:
        shutil.rmtree(d)
    d, repo = scratch(patch)
    try:
        rc1, out1 = run_demo(repo, name)
        t = subprocess.run(['/venv/bin/python', '-m', 'pytest', '-q', '-p', 'no:cacheprovider', '-n', '8'], cwd=repo,
                           capture_output=True, text=True, timeout=1800, env=dict(os.environ, PYTHONDONTWRITEBYTECODE='1'))
        tests = t.stdout.strip().splitlines()[-1] if t.stdout.strip() else t.stderr[-200:]
    finally:
        shutil.rmtree(d)
    ok = rc0 == 0 and rc1 != 0 and '278 passed' in tests
    print('%s: demo pristine rc=%d, demo patched rc=%d, suite: %s -> %s' % (name, rc0, rc1, tests, 'CONFIRMED' if ok else 'REJECTED'))
    if not ok:
        print('   pristine:', out0[-300:].replace('\n', ' | '))
        print('   patched :', out1[-300:].replace('\n', ' | '))
    return {'demo_pristine_rc': rc0, 'demo_patched_rc': rc1, 'suite': tests, 'confirmed': ok}


def detect(name, tier='quick', checks=None):
    meta = json.load(open(os.path.join(SEEDED, name, 'meta.json')))
    checks = checks or [meta['property']]
    patch = os.path.join(SEEDED, name, 'patch.diff')
    d, repo = scratch(patch)
    res = {}
    try:
        for c in checks:
            t0 = time.time()
            # evidence of the real tree must not be clobbered by a run on a mutant
            ev = os.path.join(HERE, 'evidence', c + '.json')
            keep = open(ev).read() if os.path.exists(ev) else None
            r = subprocess.run([os.path.join(HERE, 'check'), c, tier], capture_output=True, text=True, timeout=7200,
                               env=dict(os.environ, VF_REPO=repo))
            if keep is not None:
                open(ev, 'w').write(keep)
            first = [l for l in r.stdout.splitlines() if l.startswith('first violation')]
            res[c] = {'exit': r.returncode, 'wall_s': round(time.time() - t0, 1),
                      'first_violation': first[0][:300] if first else None}
            print('%s vs %s %s: exit %d %s' % (name, c, tier, r.returncode, (first[0][:200] if first else r.stdout.strip().splitlines()[-1][:200])))
    finally:
        shutil.rmtree(d)
    return res


# changes filed under one property whose observable effect is (also) another property's subject
SIBLINGS = {
    'C01-r15-1': ['C01', 'C02'],  # an API name is renamed from a later `local` declaration on: reserved names and the renaming relation are C02's
    'C04-r14-2': ['C04', 'C07'],  # the lexer fails on a long string when a matching `]]` stands earlier in the chunk: one-chunk lexing is C07's subject
    'C13-r8-2': ['C13', 'C05'],   # decompress_code runs past the declared length: the code codec is C05's subject
    'C01-r2-1': ['C01', 'C02'],   # label/goto renamed inconsistently: the renaming relation is C02's oracle
    'C01-r2-3': ['C01', 'C02'],   # name map shared between minifier runs: non-injective renaming (C02)
    'C01-r3-2': ['C01', 'C02'],   # an unrenamed identifier collides with an earlier generated name: non-injective renaming (C02)
    'C08-r4-3': ['C08', 'C14'],
    'C19-r5-2': ['C19', 'C20'],
    'C03-r7-1': ['C03', 'C06'],   # TokString.code re-spells byte 14/15 before a digit wrongly: the echo writer's spelling is C06's subject
    'C03-r6-2': ['C03', 'C06'],
    'C09-r7-3': ['C09', 'C08'],   # the parser rejects a label name reused in sibling blocks: acceptance of valid programs is C08's subject
    'C01-r8-2': ['C01', 'C02'],   # the 26th generated name repeats the first: non-injective renaming (C02)
    'C11-r8-1': ['C11', 'C14'],   # a missing file behind a nested require() no longer fails the build (nothing fails, so C11 has nothing to judge): C14's last sentence
    'C19-r7-3': ['C19', 'C20'],
    'C01-r12-2': ['C01', 'C02'],   # names that differ only in letter case get one short name: non-injective renaming (C02)
    'C03-r12-1': ['C03', 'C07'],   # a `--` line inside an open block comment / long string is lexed as a comment when the text arrives line by line: tokenisation (C07); C03 now has such carts too
    'C06-r12-1': ['C06', 'C05'],   # overlapping back-references decoded one repetition short: picotool's decoder against the reference decoder is C05's
    'C09-r12-1': ['C09', 'C08'],   # `if (...) stmt` is rejected: a valid program does not load (C08); C09 itself says INCONCLUSIVE
    'C11-r12-1': ['C11', 'C04', 'C05'],   # a stream ending 1..8 bytes past the code area is no longer refused: nothing fails, the cart written is damaged (C04 / C05)
    'C11-r12-3': ['C11', 'C04'],   # a destination picture without alpha channel no longer makes the write fail, the picture written does not hold the cart: C04
    'C19-r12-2': ['C19', 'C20'],   # lines spliced from an included cart are decoded a second time: the include splice is C20's
    'C09-r11-1': ['C09', 'C07', 'C08'],   # a numeral directly followed by a keyword (`10do`, `1then`) is rejected by the lexer: a valid program does not load (C07/C08); C09 itself says INCONCLUSIVE
    'C01-r11-1': ['C01', 'C19'],   # code behind a header block comment on its line disappears from luamin output: code/comment confusion at the header is C19's oracle
    'C19-r11-1': ['C19', 'C03', 'C15'],   # the .p8 reader cuts lines at form feed / vertical tab: the cart does not come back from its file (C03) / bytes 11, 12 in context (C15)
    'C06-r11-2': ['C06', 'C14'],   # build moves the main file's first comment lines above the packages: "ends with the main program unchanged, preceded by the loader" is C14's
    'C02-r10-1': ['C02', 'C01'],   # an identifier glued to the hex numeral before it: two tokens fuse (C01); C02 cannot align such output and says INCONCLUSIVE
    'C09-r10-2': ['C09', 'C07', 'C08'],   # the lexer rejects "\255": a valid program is rejected (C07 / C08); C09's own run says INCONCLUSIVE (its programs are rejected)
    'C01-r10-2': ['C01', 'C02'],   # an API name used as a field is renamed in one place and kept in another: the renaming relation is C02's oracle
    'C19-r10-1': ['C19', 'C07'],   # a continuation line of a quoted string that starts with `--` is lexed as a comment when the text arrives line by line: tokenisation (C07)
    'C06-r9-1': ['C06', 'C04', 'C05'],   # the _update60 shim stored as cart code when the code is kept raw: the .p8.png code area is C04's / C05's subject
    'C19-r9-3': ['C19', 'C06'],   # Lua.update_from_lines() drops what earlier calls loaded: the object's code is C06's subject   # #include of a cart drops that cart's leading comments: the spliced lines are C20's subject
    'C08-r6-3': ['C08', 'C14'],   # default AST-walker handlers missing for keyed table fields: the parser's tree is intact, build's RequireWalker crashes (C14)   # the change is in #include processing (a commented-out include is expanded): C20's "every other line unchanged"   # the AST *walker* skips if-blocks (the parser's tree is intact): require() inside an if is not packaged (C14)
}

# changes whose author's demonstration is not a violation of the property as stated (kept for the record, not counted as misses)
NOT_A_VIOLATION = {
    'C16-r15-1': 'only affects .p8 rows spelled with upper-case hex digits: PICO-8 and picotool write lower-case digits, and the statement is '
                 'about reading "such files" (files as the formats prescribe them); what a hand-edited upper-case row means is not stated',
    'C17-r15-3': 'only affects set_rect_tiles() with an origin that itself lies beyond the last column or row (x >= 128, y >= 64): the statement '
                 'ranges over in-contract coordinates; data that crosses an edge from an origin on the map is still clipped',
    'C06-r14-3': 'only affects quoted strings that spell `\\u{...}`: Lua 5.2 and PICO-8 have no such escape, and an unknown escape is a lexical '
                 'error of the dialect (Appendix A), so such a source is not one of the programs the statement ranges over',
    'C09-r4-3': 'only affects `0xff..s` (hex/binary numeral directly followed by `..`), which the Lua 5.2 / PICO-8 lexer rejects as a malformed '
                'number: not a valid program, so outside the domain of C09 (and of the reference lexer)',
    'C08-r5-3': 'same lexer change as C09-r4-3: only `0x10..name` (hex/binary numeral directly followed by `..`) is affected, which the Lua 5.2 / '
                'PICO-8 lexer rejects as a malformed number - not a program of the dialect',
    'C16-r5-3': 'only affects a .p8 file in which a section header occurs twice; neither PICO-8 nor picotool writes such a file and the format '
                'description does not say what it means, so it is not one of the "such files" of the statement',
    'C07-r7-2': 'same lexer change as C09-r4-3 / C08-r5-3 (hex/binary numeral directly followed by `..`): not a program of the dialect',
    'C08-r7-2': 'only affects a compound assignment whose right-hand side continues on the next line; in the dialect of DESIGN.md Appendix A '
                '(PICO-8\'s line-wise expansion of `a += b`) a compound assignment ends with its line, so such a program is outside the domain',
    'C20-r7-1': 'only affects directive lines with other text after the name (`#include x.lua // note`); the statement speaks of `#include NAME` '
                'lines and does not say what trailing text means',
    'C09-r12-3': 'same change as C08-r7-2: only a compound assignment whose right-hand side continues on the next line is affected, which is '
                 'outside the dialect of Appendix A',
    'C09-r11-2': 'only affects a short-form if that is followed on its line by the `end` of an enclosing one-line block (`for ... do if (c) x() end`); '
                 'in the dialect of Appendix A a short-if runs to the end of its line, so such a line is not a program of the dialect (PICO-8 '
                 'itself would give the `end` to the short-if)',
    'C10-r11-1': 'only affects a short-form if whose parenthesised condition is continued on the next line; a short-if is a one-line construct '
                 '(PICO-8 rewrites it line by line), so that input is outside the dialect of Appendix A',
    'C01-r11-3': 'only affects a multi-line block comment standing INSIDE a short-if / `?` line; Appendix A excludes tokens that span lines from '
                 'line scopes (what such a line means to PICO-8\'s line-based rewriting is not defined)',
    'C18-r11-1': 'only affects a Game one of whose regions is SHORTER than its slot in the memory map (Gff.from_lines([one line])); like the '
                 'over-long regions of C18-r10-1/-3 that is not a cart whose regions have the sizes C18 says they keep',
    'C18-r10-1': 'only affects a Game one of whose regions is LONGER than its slot in the memory map (a .p8 whose __map__ section has 64 rows, which '
                 'neither PICO-8 nor picotool writes); C18 speaks of regions that have, and keep, their memory-map size - for a region that '
                 'overlaps its neighbours\' addresses "the addressed bytes" are not defined',
    'C18-r10-3': 'same precondition as C18-r10-1: only carts with an over-long region (4 rows in __gff__, 64 in __map__) are affected',
    'C06-r10-3': 'makes `build` refuse a .lua source that picotool\'s parser cannot parse to its end (compound operators outside the dialect, '
                 '`flags |= 4`); nothing is written, so nothing is reproduced wrongly, and C06 does not promise that code outside the supported '
                 'dialect is copied (C09\'s last sentence asks for exactly this refusal from tree-driven rewrites)',
    'C08-r10-3': 'removes the node that stands for redundant parentheses around a single value (`(f())` gets the tree of `f()`); C08 lists what '
                 'the tree must carry (statement kinds, nesting, chains, lists, fields, targets, operators and operands in source order) and '
                 'parentheses are not among them - Appendix B compares expressions without them by design; all writer output is unchanged',
    'C08-r9-2': 'only affects an `if (cond)` with no statement after it on its line (`if (dbg) -- print(x)`); in the dialect of Appendix A a '
                'short-form if has one or more statements on its line, and C08 speaks of the statements a short-if owns. What a condition '
                'with nothing to own means is not defined by the statements (the unchanged tree reads a `do` block on the NEXT line as its '
                'body, i.e. does not treat it as an empty line-scoped construct either)',
    'C03-r9-3': 'widens #include to names with any extension (PICO-8 itself includes any text file); only carts whose code has a physical '
                'line `#include name.ext` (quoted in a block comment) are affected, and such a line IS an include directive by C20 - a cart '
                'with an include directive naming a missing file does not load on the unchanged tree either (`#include x.lua` in a comment). '
                'Which names make a line a directive beyond .lua/.p8/.p8.png is not fixed by the statements',
    'C14-r4-2': 'a require() inside a stripped game-loop function is followed: if its file is missing the build fails, which the statement '
                'prescribes for a require() whose file cannot be found; if it exists one more required name is defined once - neither '
                'contradicts the statement',
}


def main():
    cmd = sys.argv[1]
    if cmd == 'verify':
        verify(sys.argv[2])
    elif cmd == 'detect':
        tier = sys.argv[3] if len(sys.argv) > 3 else 'quick'
        detect(sys.argv[2], tier, sys.argv[4:] or None)
    elif cmd == 'all':
        tier = sys.argv[2] if len(sys.argv) > 2 else 'quick'
        prefixes = tuple(sys.argv[3:])      # optional: only the changes whose names start with one of these (e.g. C01 C02)
        path = os.path.join(SEEDED, 'results.json' if not prefixes else 'results-%s.json' % '-'.join(prefixes))
        results = json.load(open(path)) if os.path.exists(path) and not prefixes else {}
        for name in sorted(os.listdir(SEEDED)):
            if not os.path.isdir(os.path.join(SEEDED, name)):
                continue
            if prefixes and not name.startswith(prefixes):
                continue
            try:
                r = detect(name, tier, SIBLINGS.get(name))
            except Exception as e:      # (a patch that no longer applies must not end the sweep)
                print('%s vs - %s: ERROR %s' % (name, tier, str(e)[:150]))
                r = {'error': {'exit': -1, 'wall_s': 0, 'first_violation': str(e)[:200]}}
            results.setdefault(name, {})[tier] = r
            results[name]['detected_' + tier] = any(v['exit'] == 1 for v in r.values())
            if name in NOT_A_VIOLATION:
                results[name]['not_a_violation'] = NOT_A_VIOLATION[name]
            json.dump(results, open(path, 'w'), indent=1, sort_keys=True)


if __name__ == '__main__':
    main()
